"""C16 - accepted indications reach each callback exactly once, in order;
stop() is clean.  Seeded search over thread interleavings of the real
WBEMListener on the simulated thread/queue/socket layer (simkit.lworld)."""
import copy
import random

from simkit import lworld
from simkit.prng import stream

ID = 'C16'
LEVEL = 'exploration'
TIERS = {'quick': {'runs': 12000, 'budget_s': 60},
         'thorough': {'runs': 10 ** 9, 'budget_s': 600}}
RUN_WALL = 90
SHRINK_BUDGET_S = 60
RULE = ('each run = generated listener configuration (queue size, 1-2 '
        'callbacks with virtual durations / raising, optionally one callback '
        'registered while the listener runs; http only, http+https, https '
        'only, bad certificate, https port in use), 1-3 concurrent senders '
        'with 1-3 sequential indications on either port, a main script of '
        'start/stop/restart/port-occupation at random points, optionally an '
        'end-of-run liveness probe after the queue has drained, executed '
        'under one seeded '
        'schedule (policy uniform/sticky/PCT, optional line-level preemption '
        'inside _listener.py, optional early timer firing); non-trivial = at '
        'least one indication acknowledged and >= 5 context switches; '
        'distinct = distinct SHA-1 of the scheduler event sequence')
COMPONENTS = {
    'real': ['pywbem/_listener.py (private copy, all of WBEMListener, '
             'ListenerRequestHandler, thread classes)',
             'stdlib socketserver (private copy: accept loop, ThreadingMixIn, '
             'shutdown, server_close)', 'stdlib http.server (private copy)',
             'pywbem CIM-XML parser / encoder',
             'WBEMConnection.ExportIndication (request bytes)'],
    'stub': ['threading.Thread/Event -> SimThread/SimEvent',
             'queue.Queue -> SimQueue', 'socket/selectors -> in-memory port '
             'table, FakeListenSocket, SimConn, SimSelector',
             'time.sleep/time/monotonic -> virtual clock',
             'ssl.SSLContext -> TLS stub (no handshake, no encryption)',
             'indication senders (byte-level HTTP clients)']}
ASSUMPTIONS = [
    'SimQueue/SimEvent/SimThread implement the documented semantics of '
    'queue.Queue/threading.Event/threading.Thread',
    'threads are pre-empted only at synchronisation primitives, socket I/O, '
    'callback entry/exit and (fine mode) line boundaries of _listener.py',
    'TLS is a stub: certificates are names (sim:good loads, sim:badpem is a '
    'bad PEM file, other paths do not exist) and the wrapped server socket '
    'is the plain simulated socket; what is exercised for HTTPS is the '
    'two-server start/stop logic, not the TLS layer',
    'the liveness probe is sent only after the queue is empty and every '
    'item has been processed (task_done); sleeping is not used to establish '
    'quiescence because timers may fire early']

PORT = 5000
SPORT = 5001


def gen_plan(run_seed, tier, index):
    r = stream(run_seed, 'plan')
    pol = r.choice(['uniform', 'uniform', 'sticky', 'sticky', 'pct'])
    params = {}
    if pol == 'sticky':
        params['sticky_p'] = r.choice([0.5, 0.8, 0.9, 0.97])
    if pol == 'pct':
        params['pct_d'] = r.choice([1, 2, 3])
        params['pct_len'] = r.choice([60, 150, 400])
    tp = r.choice([0, 0, 0, 0, 0.02, 0.1])
    if tp:
        params['timer_preempt_p'] = tp
    sched = {'seed': stream(run_seed, 'sched').getrandbits(48),
             'policy': pol, 'params': params,
             'fine': r.random() < 0.2}
    listener = {'http_port': PORT,
                'queue': r.choice([0, 0, 0, 1, 1, 2, 3, 5])}
    if listener['queue'] and r.random() < 0.4:
        # bounded queues: the full/not-full bookkeeping is shared between
        # the handler threads and the callback thread; look at it with
        # line-level pre-emption more often
        sched['fine'] = True
    # TLS is a stub (certificates are names, the wrapped socket is the
    # plain simulated socket); what is exercised is the two-server logic
    mode = r.choice(['plain'] * 7 + ['https_cert', 'https_port',
                                     'https_ok', 'https_ok', 'https_only'])
    if mode != 'plain':
        listener['https_port'] = SPORT
        listener['cert'] = r.choice(['/nonexistent/cert.pem', 'sim:badpem']) \
            if mode == 'https_cert' else 'sim:good'
    if mode == 'https_only':
        listener['http_port'] = None
    ncb = r.choice([1, 1, 2])
    cbs = [{'dur': r.choice([0, 0, 0, 0.05, 0.3, 1.0, 5.0]),
            'raise': r.random() < 0.2} for _ in range(ncb)]
    ns = r.choice([1, 2, 2, 3])
    senders = []
    for si in range(ns):
        msgs = []
        for k in range(r.choice([1, 2, 2, 3])):
            m = {'ind': 's%d-%d' % (si, k)}
            if r.random() < 0.15:
                m['pieces'] = r.choice([2, 3, 7])
            if r.random() < 0.05:
                m['vanish_after'] = r.choice([0, 10, 200, 600, 100000])
            if r.random() < 0.1:
                m['gap'] = r.choice([0.05, 0.5, 3.0])
            msgs.append(m)
        sd = {'msgs': msgs}
        if r.random() < 0.5:
            # a sender that goes on as soon as the response is complete
            # (Content-Length), without waiting for the server to close
            sd['eager'] = True
        if mode == 'https_only' or (mode in ('https_ok', 'https_port') and
                                    r.random() < 0.5):
            sd['port'] = SPORT
        senders.append(sd)
    main = []
    if mode == 'https_port':
        main.append(['occupy', SPORT])
    ncycles = r.choice([1, 1, 1, 2, 2, 3])
    probe = None
    late = None
    late_cyc = 0
    if r.random() < 0.15:
        # a callback that is registered while the listener is running
        late = len(cbs)
        cbs.append({'dur': r.choice([0, 0.05, 1.0]), 'raise': False,
                    'late': True})
        late_cyc = r.randrange(ncycles)
    remaining = list(range(ns))
    for cyc in range(ncycles):
        occ = r.random() < 0.08
        if occ:
            main.append(['occupy', PORT])
        main.append(['start'])
        if late is not None and cyc == late_cyc:
            main.append(['add_callback', late])
        if occ:
            main.append(['free', PORT])
            if r.random() < 0.7:
                main.append(['start'])
        if mode == 'https_port' and r.random() < 0.3:
            main.append(['free', SPORT])
        if remaining:
            k = len(remaining) if (cyc == ncycles - 1 or r.random() < 0.6) \
                else r.randint(1, len(remaining))
            main.append(['senders', remaining[:k]])
            remaining = remaining[k:]
        pt = r.choice(['join', 'join', 'wait', 'wait', 'sleep', 'yield',
                       'none'])
        if pt == 'join':
            main.append(['join_senders'])
        elif pt == 'wait':
            main.append(['wait_resp', r.randint(1, 4)])
        elif pt == 'sleep':
            main.append(['sleep', r.choice([0.01, 0.2, 1.0, 2.5])])
        elif pt == 'yield':
            main.append(['yield', r.randint(1, 12)])
        if cyc == ncycles - 1 and mode in ('plain', 'https_ok') and \
                not occ and \
                r.random() < (0.8 if listener['queue'] else 0.3):
            # liveness probe: once everything has been delivered (queue
            # empty, every item processed; a sleep would not do because
            # timers may fire early), one more indication must be accepted
            # and delivered
            probe = 's%d-0' % ns
            senders.append({'msgs': [{'ind': probe}]})
            main += [['join_senders'], ['wait_idle'], ['senders', [ns]],
                     ['join_senders']]
        main.append(['stop'])
    main.append(['join_senders'])
    main.append(['stop'])
    plan = {'check': ID, 'sched': sched, 'listener': listener,
            'mode': mode, 'callbacks': cbs, 'senders': senders, 'main': main}
    if probe:
        plan['probe'] = probe
    return plan


def classify(rec):
    how = rec['how']
    if how != 'eof':
        return how
    raw = rec.get('raw') or b''
    if not raw:
        return 'noresp'
    p = lworld.parse_response(raw)
    if p is None or 'status' not in p or p['problems']:
        # not exactly one syntactically valid response (e.g. trailing bytes
        # of a second response after the first one)
        return 'garbled'
    if p['status'] != 200:
        return 'http%d' % p['status']
    if b'<ERROR' in p.get('body', b''):
        return 'cimerr'
    return 'ack'


def evaluate(plan, H):
    V = []

    def viol(sig, msg):
        V.append({'sig': 'C16/' + sig, 'msg': msg})

    mode = plan.get('mode', 'plain')
    ncb = len(plan['callbacks'])
    probes = dict(H.get('probes') or {})
    faults = {}

    def bump(d, k, n=1):
        d[k] = d.get(k, 0) + n

    if H['failure']:
        viol('no-progress/' + H['failure'].split(':')[0],
             'run did not finish: %s' % H['failure'])
    if H['main_exc']:
        viol('harness-main-exception', H['main_exc'])

    # --- main operations
    occupied = set()
    started_ok = False
    running = False
    stops_ok = []
    for rec in H['mainops']:
        op = rec['op']
        name = op[0]
        if name == 'occupy' and rec.get('note') != 'busy':
            occupied.add(op[1])
        elif name == 'free':
            occupied.discard(op[1])
        elif name == 'start':
            # start() must fail if one of the configured ports is in use
            # or the certificate cannot be loaded
            expect_fail = (PORT in occupied and mode != 'https_only') or \
                (mode != 'plain' and SPORT in occupied) or \
                mode == 'https_cert'
            if running:
                # precondition of start(): listener must not be running
                continue
            if rec['result'] == 'exc':
                bump(faults, 'start_failed')
                if not expect_fail:
                    viol('start-raised/' + rec['exc_type'],
                         'start() raised %s with free ports (after %s)' %
                         (rec['exc'], [o['op'][0] for o in H['mainops']
                                       if o['seq1'] < rec['seq0']]))
                elif rec['exc_type'] not in (
                        'ListenerPortError', 'ListenerCertificateError',
                        'ListenerStartError'):
                    viol('start-wrong-exception/' + rec['exc_type'],
                         'start() failed with %s' % rec['exc'])
            else:
                if started_ok:
                    bump(probes, 'restart')
                started_ok = True
                running = True
        elif name == 'stop':
            running = False
            if rec['result'] == 'exc':
                viol('stop-raised/' + rec['exc_type'],
                     'stop() raised %s' % rec['exc'])
            else:
                stops_ok.append(rec)
                if rec['owned_alive']:
                    viol('thread-left-after-stop',
                         'listener threads alive after stop(): %s' %
                         rec['owned_alive'])
                if rec['ports']:
                    viol('port-left-after-stop',
                         'ports still bound after stop(): %s' % rec['ports'])

    # --- deliveries
    deliv = {}       # (cb, ind) -> [start seqs]
    ends = {}        # (cb, ind) -> [end seqs]
    for e in H['events']:
        if e['k'] == 'deliver':
            deliv.setdefault((e['cb'], e['ind']), []).append(e['seq'])
        elif e['k'] == 'deliver_end':
            ends.setdefault((e['cb'], e['ind']), []).append(e['seq'])
    for (cb, ind), seqs in sorted(deliv.items()):
        if len(seqs) > 1:
            viol('delivered-twice',
                 'indication %s delivered %d times to callback %d' %
                 (ind, len(seqs), cb))
    # a callback registered while the listener runs is owed the indications
    # that were sent after add_callback() returned
    late_from = {}
    for rec in H['mainops']:
        if rec['op'][0] == 'add_callback' and rec['result'] == 'ok':
            late_from[rec['op'][1]] = rec['seq1']
            bump(probes, 'callback_added_while_running')
    final_ok = bool(H['mainops']) and H['mainops'][-1]['op'][0] == 'stop' \
        and H['mainops'][-1]['result'] == 'ok' and not H['failure']
    nack = 0
    for rec in H['responses']:
        cls = classify(rec)
        rec['cls'] = cls
        bump(probes, 'resp_' + cls)
        ind = rec['ind']
        if cls == 'ack':
            nack += 1
            # every successful stop() that was *called* after the sender saw
            # the acknowledgement must not return before all callbacks ran
            for st in stops_ok:
                if rec['seq'] < st['seq0'] or \
                        (st is H['mainops'][-1] and final_ok):
                    for cb in range(ncb):
                        if plan['callbacks'][cb].get('late') and not (
                                cb in late_from and
                                rec['sent_seq'] > late_from[cb]):
                            continue
                        en = ends.get((cb, ind), [])
                        if not en or min(en) > st['seq1']:
                            viol('acked-not-delivered',
                                 'indication %s was acknowledged (seq %d) but '
                                 'callback %d had not completed it when '
                                 'stop() returned (seq %d)' %
                                 (ind, rec['seq'], cb, st['seq1']))
                    break
            if ncb == 2 and (0, ind) in ends and (1, ind) in deliv and \
                    min(deliv[(1, ind)]) < min(ends[(0, ind)]):
                viol('callback-order',
                     'callback 1 ran before callback 0 finished for %s' % ind)
        if ind == plan.get('probe') and cls != 'ack' and started_ok:
            viol('idle-listener-refused-indication/' + cls,
                 'after all senders were done and the queue was drained '
                 '(every item taken and processed) the indication %s got %s '
                 'instead of a success response: %r' %
                 (ind, cls, (rec.get('raw') or b'')[-300:]))
        elif cls in ('cimerr', 'refused') or \
                (cls == 'reset' and not rec.get('accepted')):
            if cls == 'cimerr':
                bump(faults, 'queue_full_answered')
                if plan['listener'].get('queue', 0) == 0:
                    viol('refused-with-unbounded-queue',
                         'CIM error response although queue is unbounded: %r'
                         % rec['raw'][-300:])
            for cb in range(ncb):
                if (cb, ind) in deliv:
                    viol('delivered-unacknowledged/' + cls,
                         'indication %s answered %s but delivered' %
                         (ind, cls))
        elif cls == 'vanished':
            bump(faults, 'sender_vanished')
        elif cls.startswith('http') or cls in ('garbled', 'noresp'):
            viol('bad-response/' + cls,
                 'valid indication %s got %s: %r' %
                 (ind, cls, (rec.get('raw') or b'')[:200]))
    # deliveries are serial: one indication at a time, callbacks of one
    # indication one after the other
    open_d = None
    for e in H['events']:
        if e['k'] == 'deliver':
            if open_d is not None:
                viol('concurrent-delivery',
                     'delivery of %s to callback %d started while delivery '
                     'of %s to callback %d was still running' %
                     (e['ind'], e['cb'], open_d[0], open_d[1]))
                break
            open_d = (e['ind'], e['cb'])
        elif e['k'] == 'deliver_end':
            open_d = None
    # per-sender order (at callback 0)
    order = {}
    acked = {r['ind'] for r in H['responses'] if r.get('cls') == 'ack'}
    for e in H['events']:
        if e['k'] == 'deliver' and e['cb'] == 0 and e['ind'] in acked:
            s, k = e['ind'][1:].split('-')
            order.setdefault(s, []).append(int(k))
    for s, ks in sorted(order.items()):
        if ks != sorted(ks):
            viol('sender-order', 'sender %s indications delivered in order %s'
                 % (s, ks))
    # deliveries of never-sent indications cannot happen; handler exceptions
    vanished_cids = {r.get('cid') for r in H['responses']
                     if r['how'] == 'vanished'}
    for cid, et, msg in H['handler_errors']:
        if cid in vanished_cids:
            bump(probes, 'handler_error_after_vanish')
            continue
        viol('handler-exception/' + et,
             'request handler raised %s: %s (healthy sender)' % (et, msg))
    for name, et, msg in H['thread_excs']:
        if name.startswith('snd'):
            viol('harness-sender-exception', '%s %s %s' % (name, et, msg))
        else:
            viol('thread-died/' + et, 'thread %s died: %s %s' %
                 (name, et, msg))
    for lvl, msg in H['logrecs']:
        if msg.startswith('LOGFORMAT-ERROR'):
            viol('log-format-error', msg)
    # stop while a request was in flight?
    for st in stops_ok:
        for rec in H['responses']:
            if rec['sent_seq'] < st['seq0'] < rec['seq']:
                bump(probes, 'stop_while_request_in_flight')
                break
    if any(c.get('raise') for c in plan['callbacks']):
        bump(faults, 'raising_callback')
    if any(c.get('dur') for c in plan['callbacks']):
        bump(faults, 'slow_callback')
    if plan['sched'].get('fine'):
        bump(probes, 'fine_mode_runs')
    if H.get('timer_preempts'):
        bump(faults, 'early_timer', H['timer_preempts'])
    nontrivial = nack >= 1 and H['switches'] >= 5
    # de-duplicate identical signatures within one run
    seen = set()
    out = []
    for v in V:
        if v['sig'] not in seen:
            seen.add(v['sig'])
            out.append(v)
    return out, probes, faults, nontrivial


def execute(plan):
    H = lworld.run_world(plan)
    V, probes, faults, nontrivial = evaluate(plan, H)
    return {'violations': V, 'fingerprint': H['fingerprint'],
            'nontrivial': nontrivial, 'probes': probes, 'faults': faults,
            'sim_seconds': H['now'], 'steps': H['steps'],
            'policy': plan['sched']['policy'] +
            ('+fine' if plan['sched'].get('fine') else ''),
            'choices': H['choices']}


def sample(plan, res):
    return {'plan': plan, 'steps': res['steps'],
            'sim_seconds': res['sim_seconds'],
            'fingerprint': res['fingerprint']}


def shrink_candidates(plan):
    """Smaller / simpler variants of a plan, most aggressive first."""
    def variant(fn):
        p = copy.deepcopy(plan)
        p['sched'].pop('forced', None) if fn.__name__ != 'keep' else None
        fn(p)
        return p

    # 1. structural
    if 'forced' not in plan['sched']:
        n = len(plan['main'])
        for i in range(n - 1, -1, -1):
            p = copy.deepcopy(plan)
            del p['main'][i]
            yield p
        for si, s in enumerate(plan['senders']):
            for mi in range(len(s['msgs']) - 1, -1, -1):
                p = copy.deepcopy(plan)
                del p['senders'][si]['msgs'][mi]
                yield p
        if len(plan['callbacks']) > 1:
            for j in range(len(plan['callbacks'])):
                p = copy.deepcopy(plan)
                del p['callbacks'][j]
                yield p
        for j, c in enumerate(plan['callbacks']):
            if c.get('dur'):
                p = copy.deepcopy(plan)
                p['callbacks'][j]['dur'] = 0
                yield p
            if c.get('raise'):
                p = copy.deepcopy(plan)
                p['callbacks'][j]['raise'] = False
                yield p
        for si, s in enumerate(plan['senders']):
            for mi, m in enumerate(s['msgs']):
                for key in ('pieces', 'vanish_after', 'gap'):
                    if key in m:
                        p = copy.deepcopy(plan)
                        del p['senders'][si]['msgs'][mi][key]
                        yield p
        if plan['sched'].get('fine'):
            p = copy.deepcopy(plan)
            p['sched']['fine'] = False
            yield p
        if plan['sched'].get('params', {}).get('timer_preempt_p'):
            p = copy.deepcopy(plan)
            del p['sched']['params']['timer_preempt_p']
            yield p
        if plan['listener'].get('queue'):
            p = copy.deepcopy(plan)
            p['listener']['queue'] = 0
            yield p
        if plan['listener'].get('https_port'):
            p = copy.deepcopy(plan)
            del p['listener']['https_port']
            p['mode'] = 'plain'
            yield p
        # 2. switch to an explicit schedule
        H = lworld.run_world(plan)
        p = copy.deepcopy(plan)
        p['sched']['forced'] = list(H['choices'])
        yield p
        return
    # 3. schedule simplification: replace stretches of decisions by -1
    #    ("stay on the current task") and cut the tail
    forced = plan['sched']['forced']
    n = len(forced)
    size = max(1, n // 2)
    while size >= 1:
        for start in range(0, n, size):
            seg = forced[start:start + size]
            if all(x == -1 for x in seg):
                continue
            p = copy.deepcopy(plan)
            p['sched']['forced'][start:start + size] = [-1] * len(seg)
            yield p
        if size == 1:
            break
        size //= 2
    while forced and forced[-1] == -1:
        forced = forced[:-1]
    if len(forced) < n:
        p = copy.deepcopy(plan)
        p['sched']['forced'] = forced
        yield p
