"""C15 - Iter... operations equal the traditional result, with or without
pull, and clean up.  Sequences of Iter calls on one connection under every
use_pull_operations setting, with the server's pull capability enabled /
disabled / toggled between calls, consumption patterns (exhaust, close after
k, drop after k, two generators alternately) and call-level faults in the
middle of an enumeration; direct (mock) and wire (real HTTP/CIM-XML client
against the simulated server) worlds."""
import gc
import sys
import copy
import uuid

import pywbem
from pywbem import CIMError, CIMInstance, CIMInstanceName

from simkit import modelgen as mg, opgen, wire, wbemserver
from simkit.prng import stream, digest
from checks.c04 import _Ids
from checks.c14 import okey as _okey

ID = 'C15'
LEVEL = 'exploration'
TIERS = {'quick': {'runs': 8000, 'budget_s': 60, 'models': 64},
         'thorough': {'runs': 10 ** 9, 'budget_s': 600, 'models': 4000}}
RUN_WALL = 120
RULE = ('each run = generated repository, a connection with '
        'use_pull_operations in {True, False, None}, direct or wire world, '
        'and 1-5 Iter calls (7 Iter operations, MaxObjectCount 1..N+1, '
        'optionally FilterQuery/ContinueOnError) with the server pull '
        'capability enabled/disabled/toggled before each call, a consumption '
        'pattern (exhaust, close after k, drop after k, alternate with a '
        'second generator) and optionally one call-level fault at the j-th '
        'request of the enumeration (CIM error, connection error, timeout, '
        'lost reply); non-trivial = a pull enumeration of >= 2 requests, a '
        'fallback, a fault or an early close happened; distinct = digest of '
        'the (call, mode, consumption, outcome) sequence')
COMPONENTS = {
    'real': ['the 7 WBEMConnection.Iter... generators and the Open/Pull/'
             'Close/Enumerate/Associator/Reference operations below them',
             'pywbem_mock providers (server state, context table, '
             'disable_pull_operations)', 'wire world: requests/urllib3/'
             'http.client + pywbem parser on both sides'],
    'stub': ['direct world: fault wrapper around _imethodcall',
             'wire world: simulated socket + SimWBEMServer envelope']}
ASSUMPTIONS = [
    'Iter parameters that exist only on the traditional side (LocalOnly, '
    'IncludeQualifiers) are left at None, as the parameter mapping in the '
    'Iter docstrings implies', 'results are compared as multisets modulo '
    'path.host; the host rule is checked separately',
    'a context whose creating or final reply was lost is the server\'s to '
    'expire (not counted as a leak)']

URL = 'http://FakedUrl:5988'
ITER_TRAD = {
    'IterEnumerateInstances': 'EnumerateInstances',
    'IterEnumerateInstancePaths': 'EnumerateInstanceNames',
    'IterAssociatorInstances': 'Associators',
    'IterAssociatorInstancePaths': 'AssociatorNames',
    'IterReferenceInstances': 'References',
    'IterReferenceInstancePaths': 'ReferenceNames',
    'IterQueryInstances': 'ExecQuery',
}
FAULTS = [('cim_error', 1), ('cim_error', 7), ('cim_error', 2),
          ('cim_error', 21), ('cim_error', 15), ('conn_error', 0),
          ('timeout', 0), ('drop_reply', 0)]


def gen_plan(run_seed, tier, index):
    r = stream(run_seed, 'plan')
    mseed = 200000 + r.randrange(TIERS[tier]['models'])
    model = mg.gen_model(mseed, with_methods=False, max_inst=12)
    g = opgen.OpGen(stream(run_seed, 'ops'), model, 'root/cimv2',
                    valid_only=True)
    calls = []
    for _ in range(r.choice([1, 2, 2, 3, 4, 5])):
        name = r.choice(list(ITER_TRAD)[:6] * 3 + ['IterQueryInstances'])
        a = {}
        if name == 'IterQueryInstances':
            a['FilterQueryLanguage'] = 'DMTF:FQL'
            a['FilterQuery'] = 'select * from %s' % model['classes'][0][
                'name']
            ns = g.ns(False)
            if ns is not None:
                a['namespace'] = ns
        elif 'Enumerate' in name:
            a['ClassName'] = g.clsarg(g.cls(allow_bad=r.random() < 0.1))
            ns = g.ns(False)
            if ns is not None:
                a['namespace'] = ns
            if name.endswith('Instances'):
                g.flags(a, ['DeepInheritance', 'IncludeClassOrigin'])
                pl = g.proplist()
                if pl is not None:
                    a['PropertyList'] = pl
        else:
            a['InstanceName'] = g.patharg(allow_bad=r.random() < 0.1)
            if r.random() < 0.05:
                # a class name or class path: the traditional operations
                # accept it (class level), the Iter operations are
                # documented for instance paths only
                cn = a['InstanceName']['$path']['cls']
                a['InstanceName'] = cn if r.random() < 0.5 else \
                    {'$cname': cn, 'ns': a['InstanceName']['$path']['ns']}
            if r.random() < 0.2:
                a['ResultClass'] = g.cls(allow_bad=False)
            if r.random() < 0.15:
                a['Role'] = r.choice(['Ante', 'Dep', 'Third'])
            if 'Associator' in name and r.random() < 0.15:
                a['AssocClass'] = g.cls(assoc=True, allow_bad=False)
            if name.endswith('Instances'):
                g.flags(a, ['IncludeClassOrigin'])
                pl = g.proplist()
                if pl is not None:
                    a['PropertyList'] = pl
        if name != 'IterQueryInstances' and r.random() < 0.12:
            a['FilterQueryLanguage'] = 'DMTF:FQL'
            a['FilterQuery'] = r.choice(['K0 = 1', 'x'])
        if r.random() < 0.08:
            a['ContinueOnError'] = False
        if r.random() < 0.1:
            a['OperationTimeout'] = r.choice([0, 10])
        k = r.random()
        if k < 0.85:
            a['MaxObjectCount'] = r.choice([1, 1, 1, 2, 2, 3, 5, 100])
        elif k < 0.92:
            a['MaxObjectCount'] = r.choice([0, None, -1])
        consume = r.choice([['exhaust']] * 5 + [['close', r.randint(0, 4)]] * 3
                           + [['drop', r.randint(0, 4)]] * 3 +
                           [['alternate'], ['overlap3']])
        c = {'op': name, 'a': a, 'consume': consume,
             'server_pull': r.choice([True, True, True, False, None])}
        if r.random() < 0.25:
            kind, code = r.choice(FAULTS)
            c['fault'] = {'at': r.choice([0, 0, 1, 1, 2, 3]), 'kind': kind,
                          'code': code}
        calls.append(c)
        if name != 'IterQueryInstances' and r.random() < 0.3:
            # the sibling operation (instances <-> paths) on the same
            # connection with the same target: what the connection learned
            # for one must not leak into the other
            sib = name[:-1] + 'Paths' if name.endswith('Instances') \
                else name[:-len('Paths')] + 's'
            a2 = {k: copy.deepcopy(v) for k, v in a.items()
                  if k not in ('DeepInheritance', 'IncludeClassOrigin',
                               'PropertyList') or sib.endswith('Instances')}
            calls.append({'op': sib, 'a': a2,
                          'consume': r.choice([['exhaust'], ['exhaust'],
                                               ['close', 1]]),
                          'server_pull': None})
    return {'check': ID, 'model_seed': mseed, 'calls': calls,
            'use_pull': r.choice([True, False, None, None]),
            'world': r.choice(['direct', 'direct', 'wire']),
            'server_pull0': r.choice([True, True, False]),
            'ids_seed': r.getrandbits(32),
            # a stub query engine behind ExecQuery / OpenQueryInstances (the
            # mock's own one always answers CIM_ERR_NOT_SUPPORTED)
            'query_engine': r.random() < 0.6}


class _Fault(Exception):
    pass


_QUERY = [False]


def okey(o):
    """Identity of a yielded object.  Query results are not addressable
    instances (they travel as INSTANCE elements without path, the
    traditional ExecQuery returns them with a path): compared by content."""
    k = _okey(o)
    if _QUERY[0] and k[0] == 'I':
        return ('I', None, k[2])
    return k


class DirectWorld:
    """Client and server are one FakedWBEMConnection."""

    def __init__(self, model, use_pull):
        self.server_conn = mg.fresh_conn(model, use_pull_operations=use_pull)
        self.client = self.server_conn
        self.use_pull = use_pull
        self.nreq = 0
        self.fault = None
        self.fired = None
        self.lost = set()
        orig = self.client._imethodcall  # noqa

        def wrapped(methodname, namespace, response_params_rqd=None,
                    **params):
            j = self.nreq
            self.nreq += 1
            f = self.fault
            if f is not None and f['at'] == j and self.fired is None:
                self.fired = (f['kind'], methodname)
                if f['kind'] == 'cim_error':
                    raise CIMError(f['code'], 'injected')
                if f['kind'] == 'conn_error':
                    raise pywbem.ConnectionError('injected')
                if f['kind'] == 'timeout':
                    raise pywbem.TimeoutError('injected')
                if f['kind'] == 'drop_reply':
                    before = set(self.contexts())
                    orig(methodname, namespace, **params)
                    self.lost |= set(self.contexts()) - before
                    if methodname.startswith('Pull') or \
                            methodname == 'CloseEnumeration':
                        self.lost.add(params.get('EnumerationContext'))
                    raise pywbem.TimeoutError('injected: reply lost')
            return orig(methodname, namespace, **params)
        self.client._imethodcall = wrapped  # noqa

    def contexts(self):
        return self.server_conn._mainprovider.enumeration_contexts  # noqa

    def fresh_client(self):
        c = self.server_conn.copy()
        if getattr(self, 'query_engine', False):
            mg.enable_query(c)
        return c

    def set_server_pull(self, enabled):
        self.server_conn.disable_pull_operations = not enabled

    def close(self):
        pass


class WirePeer:
    def __init__(self, world):
        self.w = world

    def __call__(self, raw, idx):
        w = self.w
        j = w.nreq
        w.nreq += 1
        f = w.fault
        if f is not None and f['at'] == j and w.fired is None and \
                not w.in_fresh:
            line, hdrs, _b = wire.split_http_request(raw)
            meth = hdrs.get('cimmethod', '?')
            w.fired = (f['kind'], meth)
            if f['kind'] == 'cim_error':
                def pre(name, ns, params):
                    raise CIMError(f['code'], 'injected')
                w.server.pre_exec = pre
                try:
                    return [w.server.handle_http(raw)]
                finally:
                    w.server.pre_exec = None
            if f['kind'] == 'conn_error':
                return ['RESET']
            if f['kind'] == 'timeout':
                return ['TIMEOUT']
            if f['kind'] == 'drop_reply':
                before = set(w.contexts())
                w.server.handle_http(raw)
                w.lost |= set(w.contexts()) - before
                if meth.startswith('Pull') or meth == 'CloseEnumeration':
                    for c in before:
                        if c.encode() in raw:
                            w.lost.add(c)
                return ['TIMEOUT']
        return [w.server.handle_http(raw)]


class WireWorld:
    def __init__(self, model, use_pull):
        self.server_conn = mg.fresh_conn(model)
        self.server = wbemserver.SimWBEMServer(self.server_conn)
        self.use_pull = use_pull
        self.nreq = 0
        self.fault = None
        self.fired = None
        self.lost = set()
        self.in_fresh = False
        self.net = wire.Net(WirePeer(self)).install()
        self.client = pywbem.WBEMConnection(
            URL, use_pull_operations=use_pull, timeout=30)

    def contexts(self):
        return self.server_conn._mainprovider.enumeration_contexts  # noqa

    def fresh_client(self):
        return pywbem.WBEMConnection(URL, use_pull_operations=self.use_pull,
                                     timeout=30)

    def set_server_pull(self, enabled):
        self.server_conn.disable_pull_operations = not enabled

    def close(self):
        self.net.uninstall()


def start_iter(client, call):
    kw = {k: opgen.resolve(v, []) for k, v in call['a'].items()}
    return getattr(client, call['op'])(**kw)


def take_all(gen, op):
    if op == 'IterQueryInstances':
        return list(gen.generator)
    return list(gen)


def run_call(world, client, call, consume, inject):
    """Run one Iter call with a consumption pattern.  Returns
    (outcome, items, closed_early, started) where outcome is 'ok' or the
    exception; started tells whether the generator body ran at all."""
    items = []
    world.nreq = 0
    world.fired = None
    world.fault = call.get('fault') if inject else None
    early = False
    started = True
    gens = []
    try:
        gen = start_iter(client, call)
        it = gen.generator if call['op'] == 'IterQueryInstances' else gen
        gens.append(it)
        mode = consume[0]
        if mode == 'exhaust':
            for x in it:
                items.append(x)
        elif mode in ('close', 'drop'):
            k = consume[1]
            if k == 0:
                started = False
            n = 0
            while n < k:
                try:
                    items.append(next(it))
                except StopIteration:
                    break
                n += 1
            else:
                early = True
                if mode == 'close':
                    it.close()
                else:
                    gens.remove(it)
                    del it
                    del gen
                    gc.collect()
        elif mode == 'alternate':
            gen2 = start_iter(client, call)
            it2 = gen2.generator if call['op'] == 'IterQueryInstances' \
                else gen2
            gens.append(it2)
            items2 = []
            done1 = done2 = False
            while not (done1 and done2):
                if not done1:
                    try:
                        items.append(next(it))
                    except StopIteration:
                        done1 = True
                if not done2:
                    try:
                        items2.append(next(it2))
                    except StopIteration:
                        done2 = True
            if sorted(map(okey, items)) != sorted(map(okey, items2)):
                return ('alternate-differs', items, False, True)
        elif mode == 'overlap3':
            # three enumerations with lifetimes that are not nested: A is
            # opened, B is opened, A ends, C is opened, B and C are consumed
            def start():
                g = start_iter(client, call)
                g = g.generator if call['op'] == 'IterQueryInstances' else g
                gens.append(g)
                return g
            ita = it
            try:
                next(ita)
            except StopIteration:
                pass
            itb = start()
            itemsb = []
            try:
                itemsb.append(next(itb))
            except StopIteration:
                pass
            ita.close()
            itc = start()
            itemsc = list(itc)
            itemsb.extend(itb)
            items.extend(itemsb)
            if sorted(map(okey, itemsb)) != sorted(map(okey, itemsc)):
                return ('alternate-differs', items, False, True)
        return ('ok', items, early, started)
    except Exception as e:  # pylint: disable=broad-except
        return (e, items, early, started)
    finally:
        world.fault = None
        for g in gens:
            try:
                g.close()
            except Exception:  # pylint: disable=broad-except
                pass


def execute(plan):
    model = mg.gen_model(plan['model_seed'], with_methods=False, max_inst=12)
    saved_uuid4 = uuid.uuid4
    uuid.uuid4 = _Ids(plan['ids_seed'])
    V = []
    probes = {}
    faults = {}
    trace = []
    interesting = 0

    def viol(sig, msg):
        V.append({'sig': 'C15/' + sig, 'msg': msg})

    def bump(d, k, n=1):
        d[k] = d.get(k, 0) + n

    world = (WireWorld if plan['world'] == 'wire' else DirectWorld)(
        model, plan['use_pull'])
    if plan.get('query_engine'):
        world.query_engine = True
        mg.enable_query(world.server_conn)
    unraisable = []
    saved_hook = sys.unraisablehook
    sys.unraisablehook = lambda u: unraisable.append(u.exc_type.__name__)
    try:
        client = world.client
        server_pull = plan['server_pull0']
        world.set_server_pull(server_pull)
        host = client.host
        toggled = False
        for ci, call in enumerate(plan['calls']):
            _QUERY[0] = call['op'] == 'IterQueryInstances'
            if call['server_pull'] is not None and \
                    call['server_pull'] != server_pull:
                server_pull = call['server_pull']
                world.set_server_pull(server_pull)
                bump(probes, 'server_pull_toggled')
                toggled = True
            name = call['op']
            a = call['a']
            ctx0 = set(world.contexts())
            # reference: traditional operation on a fresh connection
            ta = {k: v for k, v in a.items() if k in (
                'ClassName', 'namespace', 'DeepInheritance',
                'IncludeClassOrigin', 'PropertyList', 'AssocClass',
                'ResultClass', 'Role', 'ResultRole')}
            if 'InstanceName' in a:
                ta['ObjectName'] = a['InstanceName']
            if name == 'IterQueryInstances':
                ta = {'QueryLanguage': a['FilterQueryLanguage'],
                      'Query': a['FilterQuery']}
                if 'namespace' in a:
                    ta['namespace'] = a['namespace']
            world.in_fresh = True
            fresh = world.fresh_client()
            trad = opgen.call(fresh, {'op': ITER_TRAD[name], 'a': ta}, [])
            world.in_fresh = False
            out, items, early, started = run_call(world, client, call,
                                                  call['consume'], True)
            fired = world.fired
            nreq = world.nreq
            if fired:
                bump(faults, fired[0])
                interesting += 1
            answered_no_pull = bool(
                fired and fired[0] == 'cim_error' and
                fired[1].startswith('Open') and
                call['fault'].get('code') in (1, 7))
            if answered_no_pull:
                # an injected CIM_ERR_FAILED / CIM_ERR_NOT_SUPPORTED answer to
                # an Open request is, for the client, a server that had no
                # pull operations at that moment and has them afterwards: the
                # same situation as a toggled server
                toggled = True  # (this call is judged as faulted)
                bump(probes, 'open_answered_no_pull_by_fault')
            if early:
                bump(probes, 'closed_early_' + call['consume'][0])
                interesting += 1
            if nreq >= 2:
                interesting += 1
            okind = 'ok' if out == 'ok' else (
                out if isinstance(out, str) else type(out).__name__)
            trace.append((name, plan['use_pull'], server_pull,
                          call['consume'][0], okind, len(items),
                          fired[0] if fired else None))
            ctx = (ci, name, a, 'use_pull=%r server_pull=%r world=%s '
                   'consume=%r fault=%r' % (plan['use_pull'], server_pull,
                                            plan['world'], call['consume'],
                                            fired))
            if started and 'InstanceName' in a and not (
                    isinstance(a['InstanceName'], dict) and
                    '$path' in a['InstanceName']):
                bump(probes, 'class_level_source_object')
                moc_bad = 'MaxObjectCount' in a and (
                    a['MaxObjectCount'] is None or a['MaxObjectCount'] <= 0)
                if not isinstance(out, TypeError) and not (
                        moc_bad and isinstance(out, ValueError)):
                    viol('class-level-source-accepted',
                         'call #%d %s%r (%s): InstanceName is not an instance '
                         'path; outcome %s, %d items of type %s (documented: '
                         'TypeError, in every configuration)' % (
                             ctx + (okind, len(items), sorted(
                                 {type(x).__name__ for x in items}))))
                continue
            # ---------------------------------------------- yielded objects
            keys = [okey(x) for x in items]
            if len(set(keys)) != len(keys) and trad[0] == 'ok' and \
                    len(set(map(okey, trad[1]))) == len(trad[1]):
                viol('yielded-twice', 'call #%d %s%r (%s)' % ctx)
            for x in items:
                p = x.path if isinstance(x, CIMInstance) else x
                if name != 'IterQueryInstances' and (
                        p is None or not p.namespace):
                    viol('path-without-namespace', 'call #%d %s%r (%s): %r'
                         % (ctx + (p,)))
                    break
            if not started:
                # the generator body never ran (nothing was requested)
                bump(probes, 'generator_never_started')
                continue
            if out == 'alternate-differs':
                viol('alternate-generators-differ', 'call #%d %s%r (%s)' % ctx)
                continue
            moc = a.get('MaxObjectCount', 1)
            bad_moc = 'MaxObjectCount' in a and (moc is None or moc <= 0)
            if out == 'ok':
                if bad_moc:
                    viol('invalid-maxobjectcount-accepted',
                         'call #%d %s%r (%s)' % ctx)
                    continue
                if trad[0] != 'ok':
                    viol('iter-succeeds-where-traditional-fails',
                         'call #%d %s%r (%s): traditional raised %r, Iter '
                         'yielded %d objects' % (ctx + (trad[1], len(items))))
                    continue
                exp = sorted(map(okey, trad[1]))
                if not early and call['consume'][0] != 'alternate' or \
                        call['consume'][0] == 'alternate':
                    got = sorted(keys)
                    if not early and got != exp:
                        viol('result-differs-from-traditional',
                             'call #%d %s%r (%s): Iter yielded %d objects, '
                             'traditional operation %d; only in Iter %s; '
                             'only in traditional %s' % (ctx + (
                                 len(got), len(exp),
                                 [k[:2] for k in got if k not in exp][:3],
                                 [k[:2] for k in exp if k not in got][:3])))
                if early:
                    rem = list(exp)
                    for kx in keys:
                        if kx in rem:
                            rem.remove(kx)
                        else:
                            viol('prefix-not-in-traditional-result',
                                 'call #%d %s%r (%s)' % ctx)
                            break
                # host rule: in fallback mode the connection's host is set
                if name in ('IterEnumerateInstances',
                            'IterEnumerateInstancePaths') and items and \
                        (plan['use_pull'] is False or not server_pull) and \
                        nreq <= 2:
                    for x in items:
                        p = x.path if isinstance(x, CIMInstance) else x
                        if p.host != host:
                            viol('fallback-path-without-host',
                                 'call #%d %s%r (%s): path %r' %
                                 (ctx + (p,)))
                            break
                if plan['world'] == 'wire' and name != 'IterQueryInstances':
                    for x in items:
                        p = x.path if isinstance(x, CIMInstance) else x
                        if not p.host:
                            viol('path-without-host', 'call #%d %s%r (%s): '
                                 '%r' % (ctx + (p,)))
                            break
            else:
                e = out
                if fired:
                    # with a fault: a pywbem.Error (or documented ValueError)
                    if not isinstance(e, (pywbem.Error, ValueError,
                                          TypeError)):
                        viol('fault-leaked/' + type(e).__name__,
                             'call #%d %s%r (%s): %r' % (ctx + (e,)))
                    rem = sorted(map(okey, trad[1])) if trad[0] == 'ok' \
                        else None
                    if rem is not None:
                        for kx in keys:
                            if kx in rem:
                                rem.remove(kx)
                            else:
                                viol('faulted-prefix-not-in-result',
                                     'call #%d %s%r (%s)' % ctx)
                                break
                else:
                    # no fault: the error must be one the documentation
                    # names, and a fresh connection must fail the same way
                    world.in_fresh = True
                    f2 = world.fresh_client()
                    out2, items2, _e2, _s2 = run_call(world, f2, call,
                                                      ['exhaust'], False)
                    world.in_fresh = False
                    if out2 == 'ok':
                        direction = 'pull-assumed' if isinstance(
                            e, CIMError) else 'traditional-assumed'
                        # (the known findings are about a server whose
                        # pull capability changed under the connection)
                        viol(('sticky-pull-flag/' if toggled else
                              'learned-state-breaks-call/') + direction,
                             'call #%d %s%r (%s) raised %r but the same call '
                             'on a fresh connection yields %d objects%s' %
                             (ctx + (e, len(items2),
                                     '' if toggled else '; the server never '
                                     'changed its pull capability')))
                    elif isinstance(e, ValueError):
                        if not (bad_moc or 'FilterQuery' in a or
                                'ContinueOnError' in a):
                            viol('undocumented-valueerror',
                                 'call #%d %s%r (%s): %r' % (ctx + (e,)))
                    elif isinstance(e, CIMError):
                        if trad[0] == 'ok' and not (
                                plan['use_pull'] is True and not server_pull
                                ) and 'FilterQuery' not in a and \
                                'ContinueOnError' not in a and \
                                'OperationTimeout' not in a:
                            viol('iter-fails-where-traditional-succeeds',
                                 'call #%d %s%r (%s): %r' % (ctx + (e,)))
                    elif not isinstance(e, (pywbem.Error, TypeError)):
                        viol('undocumented-exception/' + type(e).__name__,
                             'call #%d %s%r (%s): %r' % (ctx + (e,)))
            # ------------------------------------------------------ cleanup
            gc.collect()
            left = set(world.contexts()) - ctx0 - world.lost
            close_faulted = fired and fired[1] == 'CloseEnumeration'
            if left and not close_faulted:
                viol('context-left-open',
                     'call #%d %s%r (%s): %d enumeration context(s) left on '
                     'the server after the iterator ended (outcome %s, %d '
                     'objects, %d requests)' %
                     (ctx + (len(left), okind, len(items), nreq)))
    finally:
        world.close()
        uuid.uuid4 = saved_uuid4
        sys.unraisablehook = saved_hook
    if unraisable:
        bump(probes, 'exception_in_generator_finaliser', len(unraisable))
    seen = set()
    outv = []
    for v in V:
        if v['sig'] not in seen:
            seen.add(v['sig'])
            outv.append(v)
    bump(probes, 'world_' + plan['world'])
    bump(probes, 'use_pull_%s' % plan['use_pull'])
    return {'violations': outv, 'fingerprint': digest(trace),
            'nontrivial': interesting >= 1, 'probes': probes,
            'faults': faults, 'sim_seconds': 0.0,
            'steps': len(plan['calls'])}


def sample(plan, res):
    return {k: plan[k] for k in ('model_seed', 'use_pull', 'world',
                                 'server_pull0', 'calls')}


def shrink_candidates(plan):
    n = len(plan['calls'])
    for i in range(n - 1, -1, -1):
        p = copy.deepcopy(plan)
        del p['calls'][i]
        yield p
    for i, c in enumerate(plan['calls']):
        if 'fault' in c:
            p = copy.deepcopy(plan)
            del p['calls'][i]['fault']
            yield p
        if c['consume'] != ['exhaust']:
            p = copy.deepcopy(plan)
            p['calls'][i]['consume'] = ['exhaust']
            yield p
        for k in list(c['a']):
            if k in ('ClassName', 'InstanceName'):
                continue
            p = copy.deepcopy(plan)
            del p['calls'][i]['a'][k]
            yield p
    if plan['world'] == 'wire':
        p = copy.deepcopy(plan)
        p['world'] = 'direct'
        yield p
