"""C13 - association traversal is consistent with the stored association
instances.  Evaluated as cross-invariants inside the store machine: a
history creates / deletes association instances and their end points
(binary and ternary associations with subclasses, within one class, across
namespaces, dangling and NULL reference ends); after every mutating step a
sample of (source, filter tuple) queries is checked."""
import copy
import random

import pywbem
from pywbem import CIMError, CIMInstance, CIMInstanceName, CIMProperty

from simkit import modelgen as mg, store
from simkit.prng import stream, digest

ID = 'C13'
LEVEL = 'exploration'
TIERS = {'quick': {'runs': 1200, 'budget_s': 75, 'models': 64},
         'thorough': {'runs': 10 ** 9, 'budget_s': 600, 'models': 4000}}
RUN_WALL = 120
RULE = ('each run = generated schema with 1-2 association classes (binary / '
        'ternary, optional subclass, optional non-key third reference) over '
        '1-3 namespaces and a history of 4-25 steps: create association '
        'instances (same namespace, cross namespace, self association, NULL '
        'third end, duplicate), delete end points (leaving dangling '
        'references) and association instances, create new end points; after '
        'every mutating step up to 12 (source, Role, ResultRole, AssocClass, '
        'ResultClass) queries with existing, non-existing and differently '
        'cased filter names are evaluated: Names == paths of full results '
        '(instance and class level, Open and Iter variants), agreement with '
        'the association instances of the reference model, filter '
        'monotonicity, symmetry, case-insensitivity; non-trivial = >= 1 '
        'association instance existed and >= 5 queries returned objects; '
        'distinct = digest of (step, outcome, result sizes)')
COMPONENTS = {
    'real': ['FakedWBEMConnection Associators/AssociatorNames/References/'
             'ReferenceNames + Open.../Iter... variants',
             'MainProvider _get_reference_instnames/_get_associated_'
             'instancenames and class-level counterparts',
             'InstanceWriteProvider multi-namespace association handling'],
    'stub': ['nothing; reference model of association instances']}
ASSUMPTIONS = [
    'the statement constrains objects y other than x; x itself in its own '
    'result (self association) is not judged',
    'association instances are created in the namespace of one of their '
    'ends (the mock keeps a copy per referenced namespace plus the '
    'creation namespace, and deleting through a copy does not remove a '
    'copy in an unrelated creation namespace)',
    'a dangling end (end point deleted after the association was created) '
    'is not an object Associators can return, so AssociatorNames must not '
    'return it either; no operation may fail because of it']

ROLES = ['Ante', 'Dep', 'Third']


def gen_plan(run_seed, tier, index):
    r = stream(run_seed, 'plan')
    base = 400000
    # only models that contain an association class
    # ... and, in half of the runs, one with a non-key reference over more
    # than one namespace (the only reference ModifyInstance may retarget)
    want_retarget = r.random() < 0.5
    for _try in range(400):
        mseed = base + r.randrange(TIERS[tier]['models'] * 3)
        model = mg.gen_model(mseed, with_methods=False, max_inst=8)
        if not any(c['assoc'] for c in model['classes']):
            continue
        if want_retarget and _try < 300 and not (
                len(model['namespaces']) > 1 and any(
                    p['type'] == 'reference' and not p.get('key')
                    for c in model['classes'] if c['assoc']
                    for p in c['props'])):
            continue
        break
    steps = []
    n = r.randint(4, 25)
    for _ in range(n):
        k = r.random()
        if k < 0.45:
            steps.append(['create_assoc', r.randrange(8),
                          [r.randrange(40) for _ in range(3)],
                          r.choice(['same', 'same', 'cross', 'self', 'null',
                                    'dup', 'same']), r.randrange(3)])
        elif k < 0.60:
            steps.append(['delete_end', r.randrange(40)])
        elif k < 0.72:
            steps.append(['delete_assoc', r.randrange(40)])
        elif k < 0.80:
            steps.append(['create_end', r.randrange(1 << 30)])
        elif k < (0.88 if not want_retarget else 0.95):
            steps.append(['modify_assoc', r.randrange(40), r.randrange(40),
                          r.choice(['same', 'same', 'cross']),
                          # the new reference may spell the namespace in
                          # another lexical case
                          r.random() < 0.3])
        elif k < 0.97:
            steps.append(['add_subclass', r.randrange(1 << 30)])
        else:
            steps.append(['query_only', r.randrange(1 << 30)])
    return {'check': ID, 'model_seed': mseed, 'steps': steps,
            'qseed': r.getrandbits(30)}


def pk(p, ns=None):
    return store.path_key(p, ns)


def execute(plan):
    model = mg.gen_model(plan['model_seed'], with_methods=False, max_inst=8)
    M = store.Machine(model, 1, None, aliasing=False)
    RM = M.model
    conn = M.base
    qr = random.Random(plan['qseed'])
    returned = 0
    nassoc_seen = 0

    def viol(sig, msg):
        M.viol('C13/' + sig, msg)

    assoc_classes = [c for c in model['classes'] if c['assoc']]
    plain_classes = [c for c in model['classes'] if not c['assoc']]

    def ends():
        return sorted((k for k, v in RM.inst.items()
                       if not RM.cls(v['cls'])['assoc']), key=repr)

    def assocs():
        return sorted((k for k, v in RM.inst.items()
                       if RM.cls(v['cls'])['assoc']), key=repr)

    def ref_props(cname):
        return [d for d in RM.all_props(cname).values()
                if d['type'] == 'reference']

    # ---------------------------------------------------------- model query
    def model_assoc(xkey, xns, role, rrole, aclass, rclass, names_only=True):
        """Expected associator keys of x (excluding x) + the dangling ones."""
        out, dangling = set(), set()
        for k, v in RM.inst.items():
            if k[0] != xns.lower() or not RM.cls(v['cls'])['assoc']:
                continue
            if aclass is not None and (RM.cls(aclass) is None or
                                       not RM.is_sub(v['cls'], aclass)):
                continue
            refs = [(n, cv[2]) for n, cv in v['props'].items()
                    if cv[0] == 'reference' and cv[2] is not None]
            for pn, pv in refs:
                if pv[1] != xkey:
                    continue
                if role is not None and pn != role.lower():
                    continue
                for qn, qv in refs:
                    if qn == pn:
                        continue
                    if rrole is not None and qn != rrole.lower():
                        continue
                    ykey = qv[1]
                    if rclass is not None and (
                            RM.cls(rclass) is None or RM.cls(ykey[1]) is None
                            or not RM.is_sub(ykey[1], rclass)):
                        continue
                    if ykey == xkey:
                        continue
                    (out if ykey in RM.inst else dangling).add(ykey)
        return out, dangling

    def model_refs(xkey, xns, role, rclass):
        out = set()
        for k, v in RM.inst.items():
            if k[0] != xns.lower() or not RM.cls(v['cls'])['assoc']:
                continue
            if rclass is not None and (RM.cls(rclass) is None or
                                       not RM.is_sub(v['cls'], rclass)):
                continue
            for n, cv in v['props'].items():
                if cv[0] == 'reference' and cv[2] is not None and \
                        cv[2][1] == xkey and \
                        (role is None or n == role.lower()):
                    out.add(k)
        return out

    def call(name, **kw):
        try:
            rv = getattr(conn, name)(**kw)
            if name.startswith('Iter'):
                rv = list(rv)
            # aliasing fault: the caller scribbles over everything it was
            # handed (down into the reference keybindings of the paths);
            # the oracle works on a private copy taken before
            keep = copy.deepcopy(rv)
            store.scramble(rv)
            M.bump('aliasing_mutations')
            return ('ok', keep)
        except CIMError as e:
            return ('cim', e)
        except Exception as e:  # pylint: disable=broad-except
            return ('exc', e)

    def keyset(objs, ns):
        out = set()
        for o in objs:
            p = o.path if isinstance(o, CIMInstance) else o
            out.add(pk(p, ns))
        return out

    def queries(i):
        nonlocal returned
        es = ends()
        if not es:
            return
        for _ in range(qr.choice([4, 8, 12])):
            xkey = qr.choice(es)
            x = copy.deepcopy(RM.inst[xkey]['path'])
            xns = RM.inst[xkey]['ns']
            role = qr.choice([None, None, None] + ROLES + ['Nope'])
            rrole = qr.choice([None, None, None] + ROLES + ['Nope'])
            aclass = qr.choice([None, None, None] +
                               [c['name'] for c in assoc_classes] + ['NoSuch'])
            rclass = qr.choice([None, None, None] +
                               [c['name'] for c in plain_classes] + ['NoSuch'])
            kw = {}
            for a, v in (('Role', role), ('ResultRole', rrole),
                         ('AssocClass', aclass), ('ResultClass', rclass)):
                if v is not None:
                    kw[a] = v
            ctx = 'after step %d: x=%s filters=%r' % (i, x, kw)
            an = call('AssociatorNames', ObjectName=x, **kw)
            af = call('Associators', ObjectName=x, **kw)
            bad_filter = (aclass == 'NoSuch' or rclass == 'NoSuch')
            for nm, res in (('AssociatorNames', an), ('Associators', af)):
                if res[0] == 'exc':
                    viol('undocumented-exception/%s/%s' % (
                        nm, type(res[1]).__name__), '%s: %r' % (ctx, res[1]))
                    return
            if an[0] != af[0]:
                viol('names-full-outcome-differs/associators',
                     '%s: AssociatorNames -> %s, Associators -> %s' %
                     (ctx, an[0], af[0]))
                return
            if an[0] == 'cim':
                if not bad_filter:
                    viol('valid-query-rejected/associators',
                         '%s: %r' % (ctx, an[1]))
                    return
                continue
            ankeys, afkeys = keyset(an[1], xns), keyset(af[1], xns)
            exp, dang = model_assoc(xkey, xns, role, rrole, aclass, rclass)
            if ankeys != afkeys:
                viol('names-differ-from-full/associators',
                     '%s: AssociatorNames %s != paths of Associators %s' %
                     (ctx, sorted(ankeys, key=repr), sorted(afkeys,
                                                            key=repr)))
                return
            if dang:
                M.bump('query_over_dangling_end')
            got = ankeys - {xkey}
            if got != exp:
                viol('associators-disagree-with-instances',
                     '%s: returned %s; the association instances imply %s '
                     '(missing %s, extra %s)' %
                     (ctx, sorted(got, key=repr), sorted(exp, key=repr),
                      sorted(exp - got, key=repr),
                      sorted(got - exp, key=repr)))
                return
            returned += 1 if ankeys else 0
            # references
            rkw = {}
            if role is not None:
                rkw['Role'] = role
            if aclass is not None:
                rkw['ResultClass'] = aclass
            rn = call('ReferenceNames', ObjectName=x, **rkw)
            rf = call('References', ObjectName=x, **rkw)
            for nm, res in (('ReferenceNames', rn), ('References', rf)):
                if res[0] == 'exc':
                    viol('undocumented-exception/%s/%s' % (
                        nm, type(res[1]).__name__), '%s: %r' % (ctx, res[1]))
                    return
            if rn[0] != rf[0]:
                viol('names-full-outcome-differs/references',
                     '%s: ReferenceNames -> %s, References -> %s' %
                     (ctx, rn[0], rf[0]))
                return
            if rn[0] == 'ok':
                rnk, rfk = keyset(rn[1], xns), keyset(rf[1], xns)
                if rnk != rfk:
                    viol('names-differ-from-full/references',
                         '%s: %s vs %s' % (ctx, sorted(rnk, key=repr),
                                           sorted(rfk, key=repr)))
                    return
                expr = model_refs(xkey, xns, role, aclass)
                if rnk != expr:
                    viol('references-disagree-with-instances',
                         '%s: returned %s, model %s' %
                         (ctx, sorted(rnk, key=repr), sorted(expr, key=repr)))
                    return
            elif aclass != 'NoSuch':
                viol('valid-query-rejected/references', '%s: %r' %
                     (ctx, rn[1]))
                return
            # I3 monotonicity: dropping a filter never loses results
            if kw:
                drop = qr.choice(sorted(kw))
                kw2 = {a: v for a, v in kw.items() if a != drop}
                an2 = call('AssociatorNames', ObjectName=x, **kw2)
                if an2[0] == 'ok' and not ankeys <= keyset(an2[1], xns):
                    viol('filter-adds-results',
                         '%s: with %s removed the result shrinks' %
                         (ctx, drop))
                    return
            # I5 case-insensitive filters
            if kw and not bad_filter:
                kw3 = {a: v.swapcase() for a, v in kw.items()}
                an3 = call('AssociatorNames', ObjectName=x, **kw3)
                if an3[0] != 'ok' or keyset(an3[1], xns) != ankeys:
                    viol('filter-case-sensitive',
                         '%s: case variant %r gives %s' %
                         (ctx, kw3, an3[1] if an3[0] != 'ok' else
                          sorted(keyset(an3[1], xns), key=repr)))
                    return
            # I4 symmetry (unfiltered)
            if not kw:
                for ykey in sorted(ankeys - {xkey}, key=repr)[:2]:
                    if ykey not in RM.inst:
                        continue
                    if ykey[0] != xns.lower():
                        # the reverse lookup happens in y's namespace, where
                        # the shadow copy of the association must exist
                        pass
                    y = copy.deepcopy(RM.inst[ykey]['path'])
                    back = call('AssociatorNames', ObjectName=y)
                    if back[0] != 'ok' or xkey not in keyset(
                            back[1], RM.inst[ykey]['ns']):
                        viol('asymmetric',
                             '%s: %s is an associator of x but x is not an '
                             'associator of it (%r)' % (ctx, y, back[1]))
                        return
            # Open / Iter variants
            if qr.random() < 0.3:
                ikw = dict(kw)
                it = call('IterAssociatorInstancePaths', InstanceName=x,
                          MaxObjectCount=qr.choice([1, 2, 100]), **ikw)
                if it[0] != 'ok' or keyset(it[1], xns) != ankeys:
                    viol('iter-differs-from-traditional',
                         '%s: IterAssociatorInstancePaths %s vs '
                         'AssociatorNames %s' %
                         (ctx, it[1] if it[0] != 'ok' else
                          sorted(keyset(it[1], xns), key=repr),
                          sorted(ankeys, key=repr)))
                    return
                op = call('OpenReferenceInstances', InstanceName=x,
                          MaxObjectCount=100, **rkw)
                if rn[0] == 'ok' and (op[0] != 'ok' or keyset(
                        op[1].instances, xns) != rnk):
                    viol('open-differs-from-traditional',
                         '%s: OpenReferenceInstances vs ReferenceNames' %
                         ctx)
                    return
        # class level: Names == names of full
        c = qr.choice(plain_classes + assoc_classes)
        ckw = {}
        if qr.random() < 0.4:
            ckw['AssocClass'] = qr.choice(assoc_classes)['name']
        if qr.random() < 0.3:
            ckw['Role'] = qr.choice(ROLES)
        cn = call('AssociatorNames', ObjectName=c['name'], **ckw)
        cf = call('Associators', ObjectName=c['name'], **ckw)
        if cn[0] == 'exc' or cf[0] == 'exc':
            viol('undocumented-exception/class-level/%s' %
                 type((cn if cn[0] == 'exc' else cf)[1]).__name__,
                 'after step %d class %s %r: %r / %r' %
                 (i, c['name'], ckw, cn[1], cf[1]))
            return
        if cn[0] == 'ok' and cf[0] == 'ok':
            a = sorted(p.classname.lower() for p in cn[1])
            b = sorted(t[0].classname.lower() for t in cf[1])
            if a != b:
                viol('class-names-differ-from-full/associators',
                     'after step %d: AssociatorNames(%s,%r) %s vs '
                     'Associators %s' % (i, c['name'], ckw, a, b))
                return
        rkw2 = {k: v for k, v in ckw.items() if k == 'Role'}
        cn = call('ReferenceNames', ObjectName=c['name'], **rkw2)
        cf = call('References', ObjectName=c['name'], **rkw2)
        if cn[0] == 'ok' and cf[0] == 'ok':
            a = sorted(p.classname.lower() for p in cn[1])
            b = sorted(t[0].classname.lower() for t in cf[1])
            if a != b:
                viol('class-names-differ-from-full/references',
                     'after step %d: ReferenceNames(%s) %s vs References %s'
                     % (i, c['name'], a, b))
        elif 'exc' in (cn[0], cf[0]):
            viol('undocumented-exception/class-level-references/%s' %
                 type((cn if cn[0] == 'exc' else cf)[1]).__name__,
                 'after step %d class %s' % (i, c['name']))

    def cross_check(i):
        for ns in model['namespaces']:
            want = sorted(repr(k) for k in RM.inst if k[0] == ns.lower())
            got = []
            for c in model['classes']:
                if c['super'] is not None:
                    continue
                r2 = call('EnumerateInstanceNames', ClassName=c['name'],
                          namespace=ns)
                if r2[0] != 'ok':
                    viol('cross-invariant-raised', 'step %d: %r' % (i, r2[1]))
                    return
                got += [repr(pk(p, ns)) for p in r2[1]]
            if sorted(got) != want:
                viol('store-differs-from-model',
                     'after step %d namespace %s: server has %s, model %s' %
                     (i, ns, sorted(set(got) - set(want)),
                      sorted(set(want) - set(got))))
                return

    if plan['model_seed'] % 3 == 0 and assoc_classes and ends():
        # an association that came in through add_cimobjects() (which does
        # not validate references) and whose second end lies in a namespace
        # that does not exist: a dangling end from the start
        ac = assoc_classes[0]
        rp = ref_props(ac['name'])
        es0 = [k for k in ends() if RM.is_sub(k[1], rp[0]['ref'])]
        es1 = [k for k in ends() if RM.is_sub(k[1], rp[1]['ref'])]
        if es0 and es1 and all(d.get('key') for d in rp[:2]) and \
                len(rp) == 2:
            p0 = copy.deepcopy(RM.inst[es0[0]]['path'])
            p1 = copy.deepcopy(RM.inst[es1[0]]['path'])
            p1.namespace = 'no/such'
            inst = CIMInstance(ac['name'], properties=[
                CIMProperty(rp[0]['name'], p0, type='reference',
                            reference_class=rp[0]['ref']),
                CIMProperty(rp[1]['name'], p1, type='reference',
                            reference_class=rp[1]['ref'])])
            ns0 = RM.inst[es0[0]]['ns']
            inst.path = pywbem.CIMInstanceName(
                ac['name'], {rp[0]['name']: p0, rp[1]['name']: p1},
                namespace=ns0)
            if RM.make_key(ns0, inst) not in RM.inst:
                try:
                    conn.add_cimobjects(copy.deepcopy(inst), namespace=ns0)
                    RM.store(ns0, inst)
                    M.bump('association_into_missing_namespace')
                except Exception as e:  # pylint: disable=broad-except
                    viol('add-cimobjects-failed/' + type(e).__name__, repr(e))
    queries(-1)
    orphan = [False]
    for i, st in enumerate(plan['steps']):
        if M.V:
            break
        if orphan[0]:
            # a copy in a namespace that no reference names was left behind
            # (the mock does not track where an association was created):
            # outside what the mock's multi-namespace support defines, the
            # history ends here
            break
        kind = st[0]
        if kind == 'create_assoc':
            _, ai, eidx, how, nsi = st
            ac = assoc_classes[ai % len(assoc_classes)]
            es = ends()
            if not es:
                continue
            rp = ref_props(ac['name'])
            tns = model['namespaces'][nsi % len(model['namespaces'])]
            props = []
            refs_ns = set()
            ok = True
            chosen = []
            for j, d in enumerate(rp):
                cands = [k for k in es if RM.is_sub(k[1], d['ref'])]
                if how != 'cross':
                    cands = [k for k in cands if k[0] == tns.lower()]
                if not cands:
                    ok = False
                    break
                k = cands[eidx[j % 3] % len(cands)]
                if how == 'self' and chosen and \
                        RM.is_sub(chosen[0][1], d['ref']):
                    k = chosen[0]
                chosen.append(k)
                val = copy.deepcopy(RM.inst[k]['path'])
                if how == 'null' and not d.get('key'):
                    val = None
                else:
                    refs_ns.add(RM.inst[k]['ns'])
                props.append(CIMProperty(d['name'], val, type='reference',
                                         reference_class=d['ref']))
            if not ok:
                continue
            if how == 'cross':
                # association instances are created in the namespace of one
                # of their ends (see ASSUMPTIONS)
                tns = RM.inst[chosen[0]]['ns']
            if any(d['name'] == 'Weight'
                   for d in RM.all_props(ac['name']).values()):
                props.append(CIMProperty('Weight', pywbem.Uint16(i)))
            inst = CIMInstance(ac['name'], properties=props)
            key = RM.make_key(tns, inst)
            exists = key in RM.inst
            out = call('CreateInstance', NewInstance=copy.deepcopy(inst),
                       namespace=tns)
            M.trace.append(('create_assoc', how, out[0]))
            if out[0] == 'exc':
                viol('undocumented-exception/CreateInstance/' +
                     type(out[1]).__name__,
                     'step %d create %s (%s) in %s: %r' %
                     (i, ac['name'], how, tns, out[1]))
                break
            if exists:
                if out[0] != 'cim':
                    viol('duplicate-association-accepted', 'step %d' % i)
                continue
            if out[0] == 'cim':
                viol('valid-association-rejected/%s' % out[1].status_code,
                     'step %d create %s (%s) in %s: %r; instance %r' %
                     (i, ac['name'], how, tns, out[1], inst))
                break
            for ns2 in sorted({tns} | refs_ns, key=str.lower):
                RM.store(ns2, inst)
            nassoc_seen += 1
            M.bump('assoc_created_' + how)
            if len({n.lower() for n in refs_ns | {tns}}) > 1:
                M.bump('multi_namespace_association')
        elif kind == 'delete_end':
            es = ends()
            if not es:
                continue
            k = es[st[1] % len(es)]
            p = copy.deepcopy(RM.inst[k]['path'])
            out = call('DeleteInstance', InstanceName=p)
            M.trace.append(('delete_end', out[0]))
            if out[0] != 'ok':
                viol('end-point-delete-failed/%s' % (
                    out[1].status_code if out[0] == 'cim'
                    else type(out[1]).__name__),
                    'step %d DeleteInstance(%s): %r' % (i, p, out[1]))
                break
            del RM.inst[k]
            M.bump('end_point_deleted')
        elif kind == 'delete_assoc':
            as_ = assocs()
            if not as_:
                continue
            k = as_[st[1] % len(as_)]
            p = copy.deepcopy(RM.inst[k]['path'])
            out = call('DeleteInstance', InstanceName=p)
            M.trace.append(('delete_assoc', out[0]))
            if out[0] != 'ok':
                viol('association-delete-failed/%s' % (
                    out[1].status_code if out[0] == 'cim'
                    else type(out[1]).__name__),
                    'step %d DeleteInstance(%s): %r' % (i, p, out[1]))
                break
            # the copies in the namespaces its references name go with it;
            # a copy in a namespace that no reference names (possible after
            # a reference was retargeted through that copy) is a separate
            # instance for the mock and stays (see ASSUMPTIONS)
            refns = {k[0]}
            for _n, (t2, _a2, c2) in RM.inst[k]['props'].items():
                if t2 == 'reference' and c2 is not None:
                    refns.add(c2[1][0])
            for k2 in [k2 for k2 in RM.inst
                       if k2[1] == k[1] and k2[2] == k[2]]:
                if k2[0] in refns:
                    del RM.inst[k2]
                else:
                    M.bump('unreferenced_copy_left')
                    orphan[0] = True
            M.bump('association_deleted')
        elif kind == 'modify_assoc':
            # retarget the non-key reference (and Weight) of an association
            as_ = [k for k in assocs()
                   if any(d['type'] == 'reference' and not d.get('key')
                          for d in RM.all_props(k[1]).values())]
            if not as_:
                continue
            k = as_[st[1] % len(as_)]
            rec = RM.inst[k]
            d = [d for d in RM.all_props(k[1]).values()
                 if d['type'] == 'reference' and not d.get('key')][0]
            cands = [e for e in ends() if RM.is_sub(e[1], d['ref'])]
            copies = [k2 for k2 in RM.inst if k2[1] == k[1] and k2[2] == k[2]]
            copy_ns = {k2[0] for k2 in copies}
            named = {c2[1][0] for _n, (t2, _a2, c2) in rec['props'].items()
                     if t2 == 'reference' and c2 is not None}
            if not named <= copy_ns:
                # a left-over copy whose sibling copies were deleted through
                # another namespace (see delete_assoc): the mock refuses to
                # modify it; not a state this step is about
                M.bump('modify_skipped_incomplete_copies')
                continue
            if st[3] == 'same':
                cands = [e for e in cands if e[0] in copy_ns]
            if not cands:
                continue
            tgt = cands[st[2] % len(cands)]
            newref = copy.deepcopy(RM.inst[tgt]['path'])
            if len(st) > 4 and st[4]:
                newref.namespace = newref.namespace.upper()
            inst = CIMInstance(rec['cls'], properties=[
                CIMProperty(d['name'], newref, type='reference',
                            reference_class=d['ref'])])
            inst.path = copy.deepcopy(rec['path'])
            out = call('ModifyInstance', ModifiedInstance=inst,
                       PropertyList=[d['name']])
            M.trace.append(('modify_assoc', st[3], out[0]))
            if out[0] == 'exc':
                viol('undocumented-exception/ModifyInstance/' +
                     type(out[1]).__name__,
                     'step %d ModifyInstance(%s.%s -> %s): %r' %
                     (i, inst.path, d['name'], newref, out[1]))
                break
            if out[0] == 'ok':
                cv = (d['type'], False, store.canon_value(newref))
                # the copies in the namespaces the references name (and the
                # one the request was addressed to) are updated; a copy in a
                # namespace that WAS named and is not named any more goes
                # away; a copy in a namespace that was not named before
                # (left over from an earlier retarget) is not touched
                old_named = set(named)
                RM.inst[k]['props'][d['name'].lower()] = cv
                new_named = {c2[1][0] for _n, (t2, _a2, c2) in
                             RM.inst[k]['props'].items()
                             if t2 == 'reference' and c2 is not None}
                for k2 in copies:
                    if k2[0] in new_named or k2[0] == k[0]:
                        RM.inst[k2]['props'][d['name'].lower()] = cv
                for k2 in copies:
                    if k2[0] in old_named and k2[0] not in new_named and \
                            k2[0] != k[0]:
                        del RM.inst[k2]
                        M.bump('copy_removed_by_retarget')
                if tgt[0] not in copy_ns:
                    # the association now spans one more namespace
                    full = CIMInstance(rec['cls'])
                    for n2, (t2, a2, _c2) in rec['props'].items():
                        pass
                    RM.inst[(tgt[0], k[1], k[2])] = {
                        'cls': rec['cls'], 'ns': RM.inst[tgt]['ns'],
                        'props': dict(rec['props']),
                        'path': CIMInstanceName(
                            rec['path'].classname,
                            keybindings=copy.deepcopy(
                                rec['path'].keybindings),
                            namespace=RM.inst[tgt]['ns'])}
                    M.bump('retarget_to_new_namespace')
                M.bump('association_modified')
            elif tgt[0] in copy_ns:
                viol('valid-association-modify-rejected/%s' %
                     out[1].status_code,
                     'step %d ModifyInstance(%s.%s -> %s): %r' %
                     (i, inst.path, d['name'], newref, out[1]))
                break
        elif kind == 'add_subclass':
            # a new subclass of an end class appears through add_cimobjects
            # (which writes to the class store directly), after the class
            # filters have been in use; then an instance of it is linked
            vr = random.Random(st[1])
            base = vr.choice(plain_classes)
            es = ends()
            for k0 in es[:3]:
                x0 = copy.deepcopy(RM.inst[k0]['path'])
                call('AssociatorNames', ObjectName=x0,
                     ResultClass=base['name'])
                call('ReferenceNames', ObjectName=copy.deepcopy(x0),
                     ResultClass=assoc_classes[0]['name'])
                call('AssociatorNames', ObjectName=copy.deepcopy(x0),
                     AssocClass=assoc_classes[0]['name'])
            name = 'Dyn%d' % i
            newc = {'name': name, 'super': base['name'], 'props': [],
                    'methods': [], 'assoc': False, 'desc': None}
            ok = True
            for ns in model['namespaces']:
                try:
                    conn.add_cimobjects(pywbem.CIMClass(
                        name, superclass=base['name']), namespace=ns)
                except Exception as e:  # pylint: disable=broad-except
                    viol('add-subclass-failed/' + type(e).__name__, repr(e))
                    ok = False
                    break
            if not ok:
                break
            model['classes'].append(newc)
            RM.cmap[name.lower()] = newc
            plain_classes.append(newc)
            M.bump('subclass_added_via_add_cimobjects')
            # an instance of the new class, and an association to it
            ns = vr.choice(model['namespaces'])
            props = {}
            for d in RM.all_props(name).values():
                if d.get('key'):
                    v = mg.gen_value(vr, d['type'], False, 0.0)
                    if d['type'] == 'string':
                        v['v'] = 'dyn%d' % vr.randrange(1000)
                    props[d['name']] = v
            inst = mg.inst_to_cim({'cls': name, 'props': props}, newc)
            out = call('CreateInstance', NewInstance=copy.deepcopy(inst),
                       namespace=ns)
            if out[0] != 'ok':
                if out[0] != 'cim':
                    viol('undocumented-exception/CreateInstance/' +
                         type(out[1]).__name__, repr(out[1]))
                continue
            nk = RM.store(ns, inst)
            for ac in assoc_classes:
                rp = ref_props(ac['name'])
                vals = []
                for d in rp:
                    if RM.is_sub(name, d['ref']) and nk not in [
                            v[0] for v in vals]:
                        vals.append((nk, d))
                    else:
                        c2 = [k for k in ends() if k[0] == ns.lower() and
                              RM.is_sub(k[1], d['ref'])]
                        if not c2:
                            vals = None
                            break
                        vals.append((c2[vr.randrange(len(c2))], d))
                if not vals or nk not in [v[0] for v in vals]:
                    continue
                aprops = [CIMProperty(
                    d['name'], copy.deepcopy(RM.inst[k2]['path']),
                    type='reference', reference_class=d['ref'])
                    for k2, d in vals]
                ainst = CIMInstance(ac['name'], properties=aprops)
                if RM.make_key(ns, ainst) in RM.inst:
                    continue
                out = call('CreateInstance', NewInstance=copy.deepcopy(ainst),
                           namespace=ns)
                if out[0] == 'ok':
                    RM.store(ns, ainst)
                    nassoc_seen += 1
                    M.bump('assoc_created_to_new_subclass')
                break
        elif kind == 'create_end':
            vr = random.Random(st[1])
            c = vr.choice(plain_classes)
            ns = vr.choice(model['namespaces'])
            props = {}
            for d in RM.all_props(c['name']).values():
                if d.get('key'):
                    v = mg.gen_value(vr, d['type'], False, 0.0)
                    if d['type'] == 'string':
                        v['v'] = 'e%d' % vr.randrange(1000)
                    props[d['name']] = v
            inst = mg.inst_to_cim({'cls': c['name'], 'props': props}, c)
            key = RM.make_key(ns, inst)
            out = call('CreateInstance', NewInstance=copy.deepcopy(inst),
                       namespace=ns)
            if out[0] == 'ok':
                RM.store(ns, inst)
                M.bump('end_point_created')
            elif key not in RM.inst and out[0] != 'cim':
                viol('undocumented-exception/CreateInstance/' +
                     type(out[1]).__name__, repr(out[1]))
        if M.V:
            break
        cross_check(i)
        if not M.V:
            queries(i)
    seen = set()
    outv = []
    for v in M.V:
        if v['sig'] not in seen:
            seen.add(v['sig'])
            outv.append(v)
    return {'violations': outv, 'fingerprint': digest(
        M.trace + [returned, sorted(M.probes.items())]),
        'nontrivial': (nassoc_seen >= 1 or bool(assocs())) and returned >= 5,
        'probes': M.probes, 'faults': {
            k: v for k, v in M.probes.items()
            if k in ('end_point_deleted', 'assoc_created_null',
                     'multi_namespace_association')},
        'sim_seconds': 0.0, 'steps': len(plan['steps'])}


def sample(plan, res):
    return {'model_seed': plan['model_seed'], 'steps': plan['steps'][:10],
            'n_steps': len(plan['steps'])}


def shrink_candidates(plan):
    n = len(plan['steps'])
    for i in range(n - 1, -1, -1):
        p = copy.deepcopy(plan)
        del p['steps'][i]
        yield p
