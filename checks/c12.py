"""C12 - class inheritance is resolved correctly and class queries mirror the
hierarchy.  Model-based histories: a class forest is built on three replicas
(CreateClass in two different topological orders, MOF compilation), then a
history of CreateClass / ModifyClass / DeleteClass / CreateInstance steps
(with names in varying lexical case, re-creation of deleted names with other
content, rejected modifications) runs against an independent reference
resolver; after every step GetClass (all flag combinations), EnumerateClasses,
EnumerateClassNames, EnumerateInstances and EnumerateInstanceNames are
compared with the model."""
import copy
import random
import warnings

import pywbem
import pywbem_mock
from pywbem import (CIMError, CIMClass, CIMProperty, CIMMethod, CIMParameter,
                    CIMQualifier, CIMQualifierDeclaration, CIMInstance)

from simkit.prng import stream, digest

ID = 'C12'
LEVEL = 'exploration'
TIERS = {'quick': {'runs': 1600, 'budget_s': 75},
         'thorough': {'runs': 10 ** 9, 'budget_s': 600}}
RUN_WALL = 120
RULE = ('each run = one generated forest (3-12 classes, depth <= 5, fan-out '
        '<= 4; properties, methods, parameters with and without Override; '
        'qualifier declarations with the four ToSubclass/Restricted x '
        'Enable/DisableOverride flavor combinations at class, property, '
        'method and parameter level) built on three replicas (CreateClass in '
        'two topological orders, MOF compile) and a history of 3-14 steps '
        '(create via CreateClass/MOF/add_cimobjects, ModifyClass of leaves, '
        'rejected ModifyClass, DeleteClass of inner nodes, CreateInstance, '
        're-creation of deleted names with other content; names in varying '
        'lexical case); after every step the affected classes and a sample '
        'of others are queried with sampled flag combinations; non-trivial '
        '= depth >= 3 reached, >= 1 override, and >= 1 modify or delete '
        'executed; distinct = digest of (forest shape, step kinds, outcome)')
COMPONENTS = {
    'real': ['FakedWBEMConnection CreateClass/ModifyClass/DeleteClass/'
             'GetClass/EnumerateClasses/EnumerateClassNames/'
             'EnumerateInstances/EnumerateInstanceNames/CreateInstance',
             'ResolverMixin', 'MainProvider class operations',
             'MOFCompiler + _MockMOFWBEMConnection (replica c and MOF '
             'steps)', 'add_cimobjects class path'],
    'stub': ['nothing; independent reference resolver (about 150 lines)']}
ASSUMPTIONS = [
    'propagated of an overriding element is not judged (the statement does '
    'not fix it); for the same reason an overriding element may or may not '
    'be returned with LocalOnly=True',
    'an overriding method declares the same parameter names as the method '
    'it overrides (whether parameters of ancestors are merged is not fixed)',
    'a Restricted + DisableOverride qualifier is never redeclared on an '
    'overriding element (DSP0004 is ambiguous about it)',
    'names are compared case-insensitively; class_origin must name the '
    'introducing class in any lexical case',
    'flavor attributes and the propagated attribute of returned qualifier '
    'values are compared between replicas only, not against the model']

NS = 'root/cimv2'
SCOPES_ANY = {s: (s == 'ANY') for s in
              ('CLASS', 'ASSOCIATION', 'INDICATION', 'PROPERTY', 'REFERENCE',
               'METHOD', 'PARAMETER', 'ANY')}
# name: (type, tosubclass, overridable, scopes)
QD = {
    'key': ('Key', 'boolean', True, False, ['PROPERTY', 'REFERENCE']),
    'override': ('Override', 'string', False, True,
                 ['PROPERTY', 'METHOD', 'REFERENCE']),
    'description': ('Description', 'string', True, True, ['ANY']),
    'qtsov': ('QTsOv', 'string', True, True, ['ANY']),
    'qtsno': ('QTsNo', 'uint32', True, False, ['ANY']),
    'qreov': ('QReOv', 'string', False, True, ['ANY']),
    'qreno': ('QReNo', 'boolean', False, False, ['ANY']),
}
GENERIC = ['description', 'qtsov', 'qtsno', 'qreov', 'qreno']
PTYPES = ['string', 'uint32', 'boolean', 'sint64', 'real64', 'datetime',
          'uint8']


def qparts(x, q):
    """(value, tosubclass, overridable) of a qualifier value spec: either a
    plain value (flavors of the declaration) or {'v': value, 'ts': bool,
    'ov': bool} with flavors given where the qualifier is used."""
    ts, ov = QD[q][2], QD[q][3]
    if isinstance(x, dict):
        if x.get('ts') is not None:
            ts = x['ts']
        if x.get('ov') is not None:
            ov = x['ov']
        return x['v'], ts, ov
    return x, ts, ov


def qual_decls(partial=False):
    """partial: the scopes dict only lists the scopes that apply (as a user
    writing CIMQualifierDeclaration(scopes={'ANY': True}) would)."""
    out = []
    for name, typ, ts, ov, scopes in QD.values():
        sc = {s: True for s in scopes} if partial else \
            {s: (s in scopes) for s in SCOPES_ANY}
        out.append(CIMQualifierDeclaration(
            name, typ, is_array=False, scopes=sc, tosubclass=ts,
            overridable=ov, translatable=False, toinstance=False))
    return out


def cv(r, name):
    """A case variant of a CIM name."""
    k = r.random()
    if k < 0.55:
        return name
    if k < 0.7:
        return name.lower()
    if k < 0.85:
        return name.upper()
    return name.swapcase()


# ------------------------------------------------------------ the model
class Model:
    """Forest of class specs as given to the server, plus instances."""

    def __init__(self):
        self.cls = {}      # lname -> spec
        self.inst = {}     # (lclass, key) -> True

    def chain(self, lname):
        out = []
        while lname is not None:
            c = self.cls[lname]
            out.append(c)
            lname = c['super'].lower() if c['super'] else None
        out.reverse()
        return out

    def children(self, lname):
        return sorted(k for k, c in self.cls.items()
                      if (c['super'].lower() if c['super'] else None) ==
                      lname)

    def subtree(self, lname):
        out = []
        for ch in self.children(lname):
            out.append(ch)
            out.extend(self.subtree(ch))
        return out

    def depth(self, lname):
        return len(self.chain(lname))

    @staticmethod
    def _merge(eff, decl_quals, declared):
        """eff: {lname: (value, tosubclass, overridable)}"""
        inh = {q: v for q, v in eff.items() if v[1]}
        if declared:
            inh.update({q.lower(): qparts(v, q.lower())
                        for q, v in decl_quals.items()})
        return inh

    def view(self, lname):
        """Expected complete class: {'quals', 'props', 'methods'}."""
        chain = self.chain(lname)
        me = chain[-1]
        cq = {}
        for c in chain:
            cq = self._merge(cq, c['quals'], True)
        out = {'quals': cq, 'props': {}, 'methods': {}}
        for kind in ('props', 'methods'):
            names = []
            for c in chain:
                for e in c[kind]:
                    if e['name'].lower() not in names:
                        names.append(e['name'].lower())
            for en in names:
                eff = {}
                peff = {}
                origin = None
                nearest = None
                any_qreno = False
                for c in chain:
                    d = [e for e in c[kind] if e['name'].lower() == en]
                    d = d[0] if d else None
                    if d is not None and origin is None:
                        origin = c['name']
                    if origin is None:
                        continue
                    eff = self._merge(eff, d['quals'] if d else {},
                                      d is not None)
                    if d is not None:
                        nearest = d
                        if 'qreno' in [q.lower() for q in d['quals']]:
                            any_qreno = True
                    if kind == 'methods':
                        pn = {}
                        for p in (d['params'] if d else []):
                            pn[p['name'].lower()] = p
                        for k in set(list(peff.keys()) + list(pn.keys())):
                            peff[k] = self._merge(
                                peff.get(k, {}),
                                pn[k]['quals'] if k in pn else {}, k in pn)
                mine = [e for e in me[kind] if e['name'].lower() == en]
                ent = {'decl': nearest, 'origin': origin, 'quals': eff,
                       'declared_here': bool(mine),
                       'introduced_here': origin.lower() == lname,
                       'any_qreno': any_qreno}
                if kind == 'methods':
                    ent['pquals'] = {k: peff[k] for k in
                                     [p['name'].lower()
                                      for p in nearest['params']]}
                out[kind][en] = ent
        return out


# ---------------------------------------------------------- generation
class Gen:
    def __init__(self, r):
        self.r = r
        self.n = 0

    def val(self, q):
        r = self.r
        t = QD[q][1]
        if t == 'string':
            return r.choice(['a', 'b', 'text'])
        if t == 'uint32':
            return r.choice([1, 2, 3])
        return r.random() < 0.5

    def quals(self, inherited, overriding, any_qreno, p=0.3):
        """Own qualifier values for a declaration, given the effective
        qualifiers of the element it overrides (or {})."""
        r = self.r
        out = {}
        for q in GENERIC:
            if r.random() >= p:
                continue
            name = QD[q][0]
            if q in inherited and inherited[q][1] and not inherited[q][2]:
                # handed down and not overridable: same value (and flavors)
                out[name] = {'v': inherited[q][0], 'ts': inherited[q][1],
                             'ov': inherited[q][2]}
            elif q == 'qreno' and overriding and any_qreno:
                continue
            else:
                out[name] = self.val(q)
                if QD[q][2] and QD[q][3] and r.random() < 0.25:
                    # flavors given where the qualifier is used, stricter
                    # than those of the declaration
                    # (never both: redeclaring a Restricted +
                    # DisableOverride qualifier is ambiguous, see ASSUMPTIONS)
                    if r.random() < 0.5:
                        out[name] = {'v': out[name], 'ts': False, 'ov': None}
                    else:
                        out[name] = {'v': out[name], 'ts': None, 'ov': False}
        return out

    def cls(self, model, name, sup):
        """A valid class spec for `name` below `sup` (name as stored)."""
        r = self.r
        supl = sup.lower() if sup else None
        view = model.view(supl) if supl else \
            {'quals': {}, 'props': {}, 'methods': {}}
        spec = {'name': name, 'super': cv(r, sup) if sup else None,
                'quals': self.quals(view['quals'], True,
                                    'qreno' in view['quals'], 0.35),
                'props': [], 'methods': []}
        if not sup:
            spec['props'].append({'name': 'K', 'type': 'string',
                                  'array': False, 'quals': {'Key': True},
                                  'override': False})
        for en, ent in sorted(view['props'].items()):
            if r.random() < 0.3:
                d = ent['decl']
                q = self.quals(ent['quals'], True, ent['any_qreno'])
                if en == 'k' and r.random() < 0.5:
                    q['Key'] = True
                spec['props'].append({'name': cv(r, d['name']),
                                      'type': d['type'], 'array': d['array'],
                                      'quals': q, 'override': True})
        for _ in range(r.choice([0, 1, 1, 2, 3])):
            self.n += 1
            spec['props'].append({'name': 'P%d' % self.n,
                                  'type': r.choice(PTYPES),
                                  'array': r.random() < 0.25,
                                  'quals': self.quals({}, False, False),
                                  'override': False})
        for en, ent in sorted(view['methods'].items()):
            if r.random() < 0.35:
                d = ent['decl']
                params = []
                for p in d['params']:
                    pe = ent['pquals'][p['name'].lower()]
                    params.append({'name': cv(r, p['name']),
                                   'type': p['type'],
                                   'quals': self.quals(pe, True, True)})
                spec['methods'].append({
                    'name': cv(r, d['name']), 'rtype': d['rtype'],
                    'quals': self.quals(ent['quals'], True,
                                        ent['any_qreno']),
                    'params': params, 'override': True})
        for _ in range(r.choice([0, 0, 1, 2])):
            self.n += 1
            params = [{'name': 'A%d' % j, 'type': r.choice(PTYPES),
                       'quals': self.quals({}, False, False)}
                      for j in range(r.choice([0, 1, 2]))]
            spec['methods'].append({'name': 'M%d' % self.n,
                                    'rtype': r.choice(['uint32', 'string',
                                                       'boolean']),
                                    'quals': self.quals({}, False, False),
                                    'params': params, 'override': False})
        r.shuffle(spec['props'])
        if r.random() < 0.2:
            spec['stale'] = True
        return spec


def gen_plan(run_seed, tier, index):
    r = stream(run_seed, 'plan')
    g = Gen(r)
    m = Model()
    names = ['Cls%d' % i for i in range(r.randint(3, 12))]
    forest = []
    for i, n in enumerate(names):
        cands = [None] if i == 0 else \
            [None] + [x for x in m.cls
                      if m.depth(x) < 5 and len(m.children(x)) < 4] * 3
        supl = r.choice(cands)
        sup = m.cls[supl]['name'] if supl else None
        # prefer deep chains in some runs
        if i > 0 and r.random() < 0.4:
            deepest = max(m.cls, key=lambda x: (m.depth(x), x))
            if m.depth(deepest) < 5 and len(m.children(deepest)) < 4:
                sup = m.cls[deepest]['name']
        spec = g.cls(m, n, sup)
        m.cls[n.lower()] = spec
        forest.append(spec)
    # the history, generated against the model
    steps = []
    ninst = 0
    deleted = []
    script = []
    if r.random() < 0.35:
        # a class that was used as superclass loses its subclasses, is
        # modified and gets a new subclass
        script = ['prune', 'modify_pruned', 'create_below']
    pruned = None
    nfc = 0
    for _ in range(r.randint(3, 14)):
        k = r.random()
        live = sorted(m.cls)
        if k > 0.93 and live and nfc < 2:
            # a compile that creates a class and a subclass of it and then
            # fails (everything is rolled back); afterwards the same names
            # are created with other content
            nfc += 1
            supl = r.choice([None] + [x for x in live if m.depth(x) < 4])
            sup = m.cls[supl]['name'] if supl else None
            n1, n2 = 'Fc%da' % len(steps), 'Fc%db' % len(steps)
            a1 = g.cls(m, n1, sup)
            m.cls[n1.lower()] = a1
            b1 = g.cls(m, n2, n1)
            del m.cls[n1.lower()]
            steps.append({'op': 'failed_compile', 'classes': [a1, b1],
                          'reject': True,
                          'tail': r.choice(['syntax', 'semantic',
                                            'semantic'])})
            a2 = g.cls(m, n1, sup)
            m.cls[n1.lower()] = a2
            steps.append({'op': 'create', 'cls': a2,
                          'via': r.choice(['api', 'mof'])})
            b2 = g.cls(m, n2, n1)
            m.cls[n2.lower()] = b2
            steps.append({'op': 'create', 'cls': b2,
                          'via': r.choice(['api', 'mof', 'add'])})
            continue
        if script and k < 0.5:
            what = script.pop(0)
            if what == 'prune':
                cands = [x for x in live if m.children(x) and
                         not any(c == x for c, _ in m.inst)]
                if not cands:
                    script = []
                    continue
                pruned = r.choice(cands)
                for ch in m.children(pruned):
                    gone = [ch] + m.subtree(ch)
                    for x in gone:
                        deleted.append(m.cls[x]['name'])
                        del m.cls[x]
                    for key in [key for key in m.inst if key[0] in gone]:
                        del m.inst[key]
                    steps.append({'op': 'delete', 'name': cv(r, ch),
                                  'gone': gone})
            elif pruned in m.cls and what == 'modify_pruned':
                old = m.cls[pruned]
                sup = m.cls[old['super'].lower()]['name'] \
                    if old['super'] else None
                blocked = bool(m.children(pruned)) or \
                    any(c == pruned for c, _ in m.inst)
                del m.cls[pruned]
                spec = g.cls(m, old['name'], sup)
                m.cls[pruned] = old if blocked else spec
                steps.append({'op': 'modify', 'cls': spec, 'reject': blocked,
                              'via': r.choice(['api', 'api', 'mof'])})
            elif pruned in m.cls and what == 'create_below':
                name = 'New%d' % len(steps)
                spec = g.cls(m, name, m.cls[pruned]['name'])
                m.cls[name.lower()] = spec
                steps.append({'op': 'create', 'cls': spec,
                              'via': r.choice(['api', 'api', 'mof', 'add'])})
            continue
        if k < 0.22 and (deleted or len(live) < 14):
            name = r.choice(deleted) if deleted and r.random() < 0.6 \
                else 'New%d' % len(steps)
            if name.lower() in m.cls:
                continue
            cands = [None] + [x for x in live if m.depth(x) < 5] * 3
            supl = r.choice(cands)
            spec = g.cls(m, name, m.cls[supl]['name'] if supl else None)
            m.cls[name.lower()] = spec
            steps.append({'op': 'create', 'cls': spec,
                          'via': r.choice(['api', 'api', 'mof', 'add'])})
        elif k < 0.45 and live:
            ln = r.choice(live)
            has_children = bool(m.children(ln))
            has_inst = any(c == ln for c, _ in m.inst)
            old = m.cls[ln]
            sup = m.cls[old['super'].lower()]['name'] if old['super'] \
                else None
            del m.cls[ln]
            spec = g.cls(m, cv(r, old['name']), sup)
            if has_children or has_inst:
                m.cls[ln] = old
                steps.append({'op': 'modify', 'cls': spec, 'reject': True})
            else:
                m.cls[ln] = spec
                steps.append({'op': 'modify', 'cls': spec, 'reject': False,
                              'via': r.choice(['api', 'api', 'mof'])})
        elif k < 0.62 and len(live) > 1:
            ln = r.choice(live)
            gone = [ln] + m.subtree(ln)
            for x in gone:
                deleted.append(m.cls[x]['name'])
                del m.cls[x]
            for key in [key for key in m.inst if key[0] in gone]:
                del m.inst[key]
            steps.append({'op': 'delete', 'name': cv(r, ln), 'gone': gone})
        elif k < 0.9 and live:
            ln = r.choice(live)
            ninst += 1
            kv = 'i%d' % ninst
            m.inst[(ln, kv)] = True
            steps.append({'op': 'inst', 'cls': cv(r, m.cls[ln]['name']),
                          'key': kv})
        else:
            steps.append({'op': 'delete', 'name': 'NoSuchClass', 'gone': [],
                          'reject': True})
    # last step of some histories: a subclass whose overriding method
    # declares fewer or more parameters than the method it overrides.
    # Whether the server accepts that is not fixed by the property; it must
    # either reject it with a CIM error and leave no class behind, or store
    # a class that GetClass returns with at least the declared parameters.
    live = sorted(m.cls)
    cands = [x for x in live if m.depth(x) < 5 and any(
        e['decl']['params'] for e in m.view(x)['methods'].values())]
    if cands and r.random() < 0.3:
        supl = r.choice(cands)
        view = m.view(supl)
        en = r.choice(sorted(k for k, e in view['methods'].items()
                             if e['decl']['params']))
        d = view['methods'][en]['decl']
        params = [{'name': p['name'], 'type': p['type'], 'quals': {}}
                  for p in d['params']]
        how = r.choice(['fewer', 'fewer', 'more', 'none'])
        if how == 'fewer':
            del params[r.randrange(len(params))]
        elif how == 'none':
            params = []
        else:
            params.append({'name': 'Extra', 'type': 'uint8', 'quals': {}})
        spec = {'name': 'Pvar', 'super': m.cls[supl]['name'], 'quals': {},
                'props': [], 'methods': [{
                    'name': d['name'], 'rtype': d['rtype'], 'quals': {},
                    'params': params, 'override': True}]}
        steps.append({'op': 'create_pvar', 'cls': spec, 'how': how,
                      'inherited': [p['name'] for p in d['params']],
                      'via': r.choice(['api', 'mof'])})
    return {'check': ID, 'forest': forest, 'steps': steps,
            'partial_scopes': r.random() < 0.3,
            'conn_default_ns': r.choice([NS, NS, 'root/other']),
            'order_seed': r.getrandbits(30), 'query_seed': r.getrandbits(30)}


# ------------------------------------------------------------- building
def mkquals(qd):
    out = []
    for n, x in qd.items():
        kw = {}
        if isinstance(x, dict):
            if x.get('ts') is not None:
                kw['tosubclass'] = x['ts']
            if x.get('ov') is not None:
                kw['overridable'] = x['ov']
            x = x['v']
        out.append(CIMQualifier(n, pywbem.cimvalue(x, QD[n.lower()][1]),
                                type=QD[n.lower()][1], **kw))
    return out


def build_class(spec):
    # 'stale': the elements still carry the class origin and propagated
    # information of the class they were taken from (GetClass of another
    # class, rename, CreateClass); the server derives both itself
    stale = {'class_origin': 'StaleOrigin', 'propagated': True} \
        if spec.get('stale') else {}
    props = []
    for p in spec['props']:
        q = dict(p['quals'])
        if p['override']:
            q['Override'] = p['name']
        props.append(CIMProperty(p['name'], None, type=p['type'],
                                 is_array=p['array'], qualifiers=mkquals(q),
                                 **stale))
    meths = []
    for me in spec['methods']:
        q = dict(me['quals'])
        if me['override']:
            q['Override'] = me['name']
        params = [CIMParameter(p['name'], p['type'],
                               qualifiers=mkquals(p['quals']))
                  for p in me['params']]
        meths.append(CIMMethod(me['name'], return_type=me['rtype'],
                               parameters=params, qualifiers=mkquals(q),
                               **stale))
    return CIMClass(spec['name'], properties=props, methods=meths,
                    superclass=spec['super'],
                    qualifiers=mkquals(spec['quals']))


def new_conn(partial=False, default_ns=NS):
    """The forest always lives in NS; the default namespace of the
    connection may be another one (every call names NS explicitly)."""
    c = pywbem_mock.FakedWBEMConnection(default_namespace=default_ns)
    if default_ns != NS:
        c.add_namespace(NS)
    for ns in {NS, default_ns}:
        for q in qual_decls(partial):
            c.SetQualifier(q, namespace=ns)
    return c


def topo_order(r, forest):
    """A random order of the forest in which every class follows its
    superclass."""
    todo = list(forest)
    done = set()
    out = []
    while todo:
        ready = [s for s in todo
                 if not s['super'] or s['super'].lower() in done]
        s = r.choice(ready)
        todo.remove(s)
        done.add(s['name'].lower())
        out.append(s)
    return out


def has_use_flavors(spec):
    qs = [spec['quals']] + [e['quals'] for k in ('props', 'methods')
                            for e in spec[k]] + \
        [p['quals'] for e in spec['methods'] for p in e['params']]
    return any(isinstance(v, dict) for q in qs for v in q.values())


def put_class(conn, spec, via, modify=False):
    cl = build_class(spec)
    if via == 'mof' and has_use_flavors(spec):
        # CIMQualifier.tomof() does not write flavors: a class whose
        # qualifiers carry flavors of their own goes through the API
        via = 'api'
    if via == 'mof':
        conn.compile_mof_string(cl.tomof(), namespace=NS)
    elif via == 'add' and not modify:
        conn.add_cimobjects(cl, namespace=NS)
    elif modify:
        conn.ModifyClass(cl, namespace=NS)
    else:
        conn.CreateClass(cl, namespace=NS)


# --------------------------------------------------------------- oracle
def qview(quals):
    return {n.lower(): q.value for n, q in quals.items()}


def norm_class(cl):
    """Hash-seed independent, order independent description of a returned
    class incl. flavors and propagated attributes (replica comparison)."""
    def qs(quals):
        return sorted((n.lower(), repr(q.value), q.type, q.propagated,
                       q.tosubclass, q.overridable, q.translatable)
                      for n, q in quals.items())
    return (cl.classname.lower(), (cl.superclass or '').lower(),
            qs(cl.qualifiers),
            sorted((n.lower(), p.type, p.is_array,
                    (p.class_origin or '').lower(), p.propagated,
                    qs(p.qualifiers)) for n, p in cl.properties.items()),
            sorted((n.lower(), me.return_type,
                    (me.class_origin or '').lower(), me.propagated,
                    qs(me.qualifiers),
                    sorted((pn.lower(), pa.type, qs(pa.qualifiers))
                           for pn, pa in me.parameters.items()))
                   for n, me in cl.methods.items()))


class Oracle:
    def __init__(self, conn, model, r):
        self.c = conn
        self.m = model
        self.r = r
        self.V = []
        self.probes = {}
        self.queries = 0

    def viol(self, sig, msg):
        self.V.append({'sig': 'C12/' + sig, 'msg': msg})

    def bump(self, k, n=1):
        self.probes[k] = self.probes.get(k, 0) + n

    def _cmp_quals(self, kind, where, got, exp, own=()):
        """got: NocaseDict of CIMQualifier; exp: {lname: value}; own: names
        of the qualifiers the class itself declares on the element."""
        g = qview(got)
        own = {o.lower() for o in own}
        for q in sorted(set(g) | set(exp)):
            fl = 'tosubclass' if QD.get(q, (0, 0, True))[2] else 'restricted'
            fl += '/own' if q in own else '/inherited'
            if q not in g:
                self.viol('qualifier-missing/%s/%s' % (kind, fl),
                          '%s: qualifier %s expected (value %r) but not '
                          'returned' % (where, q, exp[q]))
            elif q not in exp:
                self.viol('qualifier-unexpected/%s/%s' % (kind, fl),
                          '%s: qualifier %s=%r returned but neither '
                          'declared here nor inherited per its flavor' % (
                              where, q, g[q]))
            elif g[q] != (exp[q][0] if isinstance(exp[q], tuple)
                          else exp[q]):
                self.viol('qualifier-value/%s' % kind,
                          '%s: qualifier %s is %r, expected %r (nearest '
                          'declaration)' % (where, q, g[q], exp[q]))

    def check_class(self, lname, flags=True):
        m = self.m
        r = self.r
        spec = m.cls[lname]
        exp = m.view(lname)
        self.queries += 1
        try:
            full = self.c.GetClass(cv(r, spec['name']), namespace=NS,
                                   LocalOnly=False, IncludeQualifiers=True,
                                   IncludeClassOrigin=True)
        except pywbem.Error as e:
            self.viol('getclass-failed', 'GetClass(%s) raised %r' % (
                spec['name'], e))
            return None
        w = 'class %s (depth %d)' % (spec['name'], m.depth(lname))
        if full.classname.lower() != lname:
            self.viol('classname', '%s: returned classname %r' % (
                w, full.classname))
        if (full.superclass or '').lower() != (spec['super'] or '').lower():
            self.viol('superclass', '%s: superclass %r, expected %r' % (
                w, full.superclass, spec['super']))
        self._cmp_quals('class', w, full.qualifiers, exp['quals'],
                        spec['quals'])
        for kind, got_d in (('props', full.properties),
                            ('methods', full.methods)):
            ek = kind[:-1].replace('prop', 'property')
            got = {n.lower(): e for n, e in got_d.items()}
            if set(got) != set(exp[kind]):
                self.viol('%s-set' % ek,
                          '%s: %s returned %s, expected %s' % (
                              w, kind, sorted(got), sorted(exp[kind])))
            for en in sorted(set(got) & set(exp[kind])):
                g = got[en]
                x = exp[kind][en]
                d = x['decl']
                we = '%s %s %s' % (w, ek, en)
                if kind == 'props':
                    if (g.type, bool(g.is_array)) != (d['type'], d['array']):
                        self.viol('property-declaration',
                                  '%s: type %s array %s, nearest declaration '
                                  'says %s/%s' % (we, g.type, g.is_array,
                                                  d['type'], d['array']))
                else:
                    if g.return_type != d['rtype']:
                        self.viol('method-declaration', '%s: return type %s,'
                                  ' expected %s' % (we, g.return_type,
                                                    d['rtype']))
                    gp = {n.lower(): p for n, p in g.parameters.items()}
                    ep = {p['name'].lower(): p for p in d['params']}
                    if set(gp) != set(ep):
                        self.viol('parameter-set', '%s: parameters %s, '
                                  'expected %s' % (we, sorted(gp),
                                                   sorted(ep)))
                    for pn in sorted(set(gp) & set(ep)):
                        if gp[pn].type != ep[pn]['type']:
                            self.viol('parameter-declaration',
                                      '%s parameter %s: type %s expected %s'
                                      % (we, pn, gp[pn].type,
                                         ep[pn]['type']))
                        mine = [p for e in spec[kind]
                                if e['name'].lower() == en
                                for p in e['params']
                                if p['name'].lower() == pn]
                        self._cmp_quals('parameter', '%s parameter %s' % (
                            we, pn), gp[pn].qualifiers, x['pquals'][pn],
                            mine[0]['quals'] if mine else ())
                if (g.class_origin or '').lower() != x['origin'].lower():
                    self.viol('class-origin/%s' % ek,
                              '%s: class_origin %r, but the element was '
                              'first introduced by %r' % (
                                  we, g.class_origin, x['origin']))
                if not x['declared_here'] and g.propagated is not True:
                    self.viol('propagated/%s/not-redeclared' % ek,
                              '%s: not redeclared by the class but '
                              'propagated=%r' % (we, g.propagated))
                if x['introduced_here'] and g.propagated is True:
                    self.viol('propagated/%s/introduced' % ek,
                              '%s: newly introduced by the class but '
                              'propagated=True' % we)
                eq = dict(x['quals'])
                mine = [e for e in spec[kind] if e['name'].lower() == en]
                own = list(mine[0]['quals']) if mine else []
                if x['declared_here'] and not x['introduced_here']:
                    eq['override'] = (mine[0]['name'], False, True)
                    own.append('override')
                self._cmp_quals(ek, we, g.qualifiers, eq, own)
        if flags:
            self.check_flags(lname, spec, full, exp)
        return full

    def check_flags(self, lname, spec, full, exp):
        r = self.r
        allp = sorted(exp['props'])
        for _ in range(3):
            lo = r.choice([None, True, False])
            iq = r.choice([None, True, False])
            ico = r.choice([None, True, False])
            plk = r.choice(['none', 'none', 'empty', 'subset', 'unknown'])
            if plk == 'none':
                pl = None
            elif plk == 'empty':
                pl = []
            elif plk == 'subset':
                pl = [cv(r, p) for p in r.sample(
                    allp, r.randint(0, len(allp)))]
            else:
                pl = ['NoSuchProp'] + [cv(r, p) for p in allp[:1]]
            self.queries += 1
            w = 'GetClass(%s, LocalOnly=%r, IncludeQualifiers=%r, ' \
                'IncludeClassOrigin=%r, PropertyList=%r)' % (
                    spec['name'], lo, iq, ico, pl)
            try:
                got = self.c.GetClass(cv(r, spec['name']), namespace=NS,
                                      LocalOnly=lo, IncludeQualifiers=iq,
                                      IncludeClassOrigin=ico, PropertyList=pl)
            except pywbem.Error as e:
                self.viol('getclass-failed', '%s raised %r' % (w, e))
                continue
            self.subset_of(w, got, full, iq, ico)
            gp = {n.lower() for n in got.properties}
            gm = {n.lower() for n in got.methods}
            want = set(allp) if pl is None else \
                {p.lower() for p in pl} & set(allp)
            local = lo is not False    # server default of LocalOnly: True
            for en in want:
                x = exp['props'][en]
                if not local or x['introduced_here']:
                    if en not in gp:
                        self.viol('flag-removed-too-much/property',
                                  '%s: property %s is missing' % (w, en))
            for en in gp:
                if en not in want:
                    self.viol('flag-propertylist', '%s: property %s '
                              'returned' % (w, en))
                elif local and not exp['props'][en]['declared_here']:
                    self.viol('flag-localonly/property',
                              '%s: inherited property %s returned' % (w, en))
            for en, x in exp['methods'].items():
                if (not local or x['introduced_here']) and en not in gm:
                    self.viol('flag-removed-too-much/method',
                              '%s: method %s is missing' % (w, en))
                if local and not x['declared_here'] and en in gm:
                    self.viol('flag-localonly/method',
                              '%s: inherited method %s returned' % (w, en))

    def subset_of(self, w, got, full, iq, ico):
        """Everything in got is in full with the same content, except for
        what IncludeQualifiers=False / IncludeClassOrigin!=True remove."""
        def qs(o):
            return sorted((n.lower(), repr(q.value))
                          for n, q in o.qualifiers.items())
        with_q = iq is not False
        with_co = ico is True
        if with_q and qs(got) != qs(full):
            self.viol('flag-changed/class-qualifiers', '%s: class '
                      'qualifiers %s, full class has %s' % (w, qs(got),
                                                            qs(full)))
        if not with_q and got.qualifiers:
            self.viol('flag-includequalifiers', '%s: class qualifiers '
                      'returned' % w)
        for kind in ('properties', 'methods'):
            fd = {n.lower(): e for n, e in getattr(full, kind).items()}
            for n, e in getattr(got, kind).items():
                f = fd.get(n.lower())
                if f is None:
                    self.viol('flag-added/%s' % kind, '%s: %s not in the '
                              'full class' % (w, n))
                    continue
                if with_q and qs(e) != qs(f):
                    self.viol('flag-changed/qualifiers', '%s: %s qualifiers '
                              '%s, full class has %s' % (w, n, qs(e), qs(f)))
                if not with_q and e.qualifiers:
                    self.viol('flag-includequalifiers', '%s: %s has '
                              'qualifiers' % (w, n))
                if with_co and (e.class_origin or '').lower() != \
                        (f.class_origin or '').lower():
                    self.viol('flag-changed/class-origin', '%s: %s '
                              'class_origin %r, full class has %r' % (
                                  w, n, e.class_origin, f.class_origin))
                if not with_co and e.class_origin is not None:
                    self.viol('flag-includeclassorigin', '%s: %s has '
                              'class_origin %r' % (w, n, e.class_origin))
                if kind == 'properties':
                    if (e.type, e.is_array) != (f.type, f.is_array):
                        self.viol('flag-changed/declaration', '%s: %s' % (
                            w, n))
                else:
                    if e.return_type != f.return_type or \
                            sorted(x.lower() for x in e.parameters) != \
                            sorted(x.lower() for x in f.parameters):
                        self.viol('flag-changed/declaration', '%s: %s' % (
                            w, n))
                    if not with_q and any(p.qualifiers for p in
                                          e.parameters.values()):
                        self.viol('flag-includequalifiers', '%s: parameters '
                                  'of %s have qualifiers' % (w, n))

    def check_enums(self, lname):
        """Class and instance enumerations starting at lname (None: root)."""
        m = self.m
        r = self.r
        name = cv(r, m.cls[lname]['name']) if lname else None
        for di in (r.choice([None, False]), True):
            if lname is None:
                exp = sorted(m.cls) if di else \
                    sorted(k for k, c in m.cls.items() if not c['super'])
            else:
                exp = sorted(m.subtree(lname) if di else m.children(lname))
            self.queries += 2
            w = '(ClassName=%r, DeepInheritance=%r)' % (name, di)
            try:
                names = self.c.EnumerateClassNames(
                    ClassName=name, namespace=NS, DeepInheritance=di)
            except pywbem.Error as e:
                self.viol('enumerate-failed', 'EnumerateClassNames%s raised '
                          '%r' % (w, e))
                continue
            got = sorted(n.lower() for n in names)
            if got != exp:
                self.viol('enumerateclassnames/%s' % (
                    'subtree' if di else 'children'),
                    'EnumerateClassNames%s returned %s, the hierarchy has '
                    '%s' % (w, got, exp))
            lo = r.choice([None, True, False])
            iq = r.choice([None, True, False])
            ico = r.choice([None, True, False])
            wf = '(ClassName=%r, DeepInheritance=%r, LocalOnly=%r, ' \
                 'IncludeQualifiers=%r, IncludeClassOrigin=%r)' % (
                     name, di, lo, iq, ico)
            try:
                classes = self.c.EnumerateClasses(
                    ClassName=name, namespace=NS, DeepInheritance=di,
                    LocalOnly=lo, IncludeQualifiers=iq,
                    IncludeClassOrigin=ico)
            except pywbem.Error as e:
                self.viol('enumerate-failed', 'EnumerateClasses%s raised %r'
                          % (wf, e))
                continue
            gotc = sorted(c.classname.lower() for c in classes)
            if gotc != exp:
                self.viol('enumerateclasses/%s' % (
                    'subtree' if di else 'children'),
                    'EnumerateClasses%s returned %s, the hierarchy has %s'
                    % (wf, gotc, exp))
            for c in classes[:4]:
                if c.classname.lower() not in m.cls:
                    continue
                one = self.c.GetClass(c.classname, namespace=NS,
                                      LocalOnly=lo, IncludeQualifiers=iq,
                                      IncludeClassOrigin=ico)
                if norm_class(one) != norm_class(c):
                    self.viol('enumerateclasses-vs-getclass',
                              'EnumerateClasses%s: class %s differs from '
                              'GetClass with the same flags: %s vs %s' % (
                                  wf, c.classname, _first_diff(
                                      norm_class(c), norm_class(one)), ''))
        if lname is None:
            return
        exp = sorted((c, k) for c, k in m.inst
                     if c == lname or c in m.subtree(lname))
        self.queries += 2
        try:
            paths = self.c.EnumerateInstanceNames(name, namespace=NS)
            insts = self.c.EnumerateInstances(name, namespace=NS)
        except pywbem.Error as e:
            self.viol('enumerate-failed', 'EnumerateInstance(Name)s(%s) '
                      'raised %r' % (name, e))
            return
        got = sorted((p.classname.lower(), str(p.keybindings.get('K')))
                     for p in paths)
        goti = sorted((i.path.classname.lower(),
                       str(i.path.keybindings.get('K'))) for i in insts)
        if got != exp:
            self.viol('enumerateinstancenames', 'EnumerateInstanceNames(%s) '
                      'returned %s, the subtree has %s' % (name, got, exp))
        if goti != exp:
            self.viol('enumerateinstances', 'EnumerateInstances(%s) '
                      'returned %s, the subtree has %s' % (name, goti, exp))


def _first_diff(a, b):
    if isinstance(a, (tuple, list)) and isinstance(b, (tuple, list)) and \
            len(a) == len(b):
        for x, y in zip(a, b):
            if x != y:
                return _first_diff(x, y)
    return '%r != %r' % (a, b)


def _create_pvar(conn, st, V, probes):
    spec = st['cls']
    mname = spec['methods'][0]['name']
    what = 'create_pvar %s.%s (%s parameters than the overridden method, ' \
        'via %s)' % (spec['name'], mname, st['how'], st['via'])
    try:
        put_class(conn, spec, st['via'])
        accepted = True
    except pywbem.Error:
        accepted = False
    except Exception as e:  # pylint: disable=broad-except
        V.append({'sig': 'C12/createclass-crashed/%s' % type(e).__name__,
                  'msg': '%s raised %r' % (what, e)})
        return
    probes['pvar_%s_%s' % (st['how'], 'accepted' if accepted
                           else 'rejected')] = 1
    try:
        got = conn.GetClass(spec['name'], namespace=NS, LocalOnly=False)
    except CIMError as e:
        if accepted or e.status_code != pywbem.CIM_ERR_NOT_FOUND:
            V.append({'sig': 'C12/pvar-class-not-retrievable',
                      'msg': '%s: GetClass raised %r' % (what, e)})
        return
    if not accepted:
        V.append({'sig': 'C12/rejected-class-stored',
                  'msg': '%s was rejected but the class exists' % what})
        return
    conn.DeleteClass(spec['name'], namespace=NS)  # (not part of the model)
    meth = {n.lower(): x for n, x in got.methods.items()}.get(mname.lower())
    if meth is None:
        V.append({'sig': 'C12/pvar-method-missing', 'msg': what})
        return
    gp = {n.lower() for n in meth.parameters}
    decl = {p['name'].lower() for p in spec['methods'][0]['params']}
    allowed = decl | {n.lower() for n in st['inherited']}
    if not decl <= gp <= allowed:
        V.append({'sig': 'C12/pvar-parameter-set',
                  'msg': '%s: GetClass shows the parameters %s; declared %s, '
                         'overridden method has %s' % (
                             what, sorted(gp), sorted(decl),
                             sorted(st['inherited']))})


# ------------------------------------------------------------ execution
def execute(plan):
    warnings.simplefilter('ignore')
    ro = random.Random(plan['order_seed'])
    rq = random.Random(plan['query_seed'])
    forest = plan['forest']
    m = Model()
    for s in forest:
        m.cls[s['name'].lower()] = s
    V = []
    probes = {}
    faults = {}

    def bump(d, k, n=1):
        d[k] = d.get(k, 0) + n

    # ---- P1: three replicas
    conns = []
    for via in ('api', 'api', 'mof'):
        c = new_conn(plan.get('partial_scopes', False),
                     plan.get('conn_default_ns', NS))
        try:
            for s in topo_order(ro, forest):
                put_class(c, s, via)
        except Exception as e:  # pylint: disable=broad-except
            V.append({'sig': 'C12/valid-class-rejected/%s/%s' % (
                via, type(e).__name__),
                      'msg': 'building the forest via %s: class %s rejected:'
                             ' %r' % (via, s['name'], e)})
            c = None
        conns.append(c)
    if conns[0] is None:
        return _result(V, probes, faults, m, plan, 0, False)
    ref = {}
    for ln in sorted(m.cls):
        ref[ln] = norm_class(conns[0].GetClass(
            ln, namespace=NS, LocalOnly=False, IncludeQualifiers=True,
            IncludeClassOrigin=True))
    for i, c in enumerate(conns[1:], 1):
        if c is None:
            continue
        for ln in sorted(m.cls):
            got = norm_class(c.GetClass(
                ln, namespace=NS, LocalOnly=False, IncludeQualifiers=True,
                IncludeClassOrigin=True))
            if got != ref[ln]:
                V.append({'sig': 'C12/replica-differs/%s' % (
                    'creation-order' if i == 1 else 'mof-vs-createclass'),
                    'msg': 'class %s: %s' % (ln, _first_diff(ref[ln], got))})
                break
    bump(probes, 'replicas_compared', 2)
    conn = conns[0]
    orc = Oracle(conn, m, rq)
    for ln in sorted(m.cls):
        orc.check_class(ln)
    for ln in [None] + rq.sample(sorted(m.cls), min(3, len(m.cls))):
        orc.check_enums(ln)
    # ---- the history
    nmod = ndel = 0
    for st in plan['steps']:
        op = st['op']
        touched = []
        if op == 'create_pvar':
            _create_pvar(conn, st, V, probes)
            continue
        try:
            if op == 'create':
                put_class(conn, st['cls'], st['via'])
                m.cls[st['cls']['name'].lower()] = st['cls']
                touched.append(st['cls']['name'].lower())
                bump(probes, 'create_via_' + st['via'])
                outcome = 'ok'
            elif op == 'modify':
                put_class(conn, st['cls'], st.get('via', 'api'), modify=True)
                outcome = 'ok'
                if st['reject']:
                    V.append({'sig': 'C12/modifyclass-accepted',
                              'msg': 'ModifyClass(%s) was accepted although '
                              'the class has subclasses or instances' %
                              st['cls']['name']})
                m.cls[st['cls']['name'].lower()] = st['cls']
                touched.append(st['cls']['name'].lower())
                nmod += 1
            elif op == 'delete':
                conn.DeleteClass(st['name'], namespace=NS)
                outcome = 'ok'
                if st.get('reject'):
                    V.append({'sig': 'C12/deleteclass-accepted',
                              'msg': 'DeleteClass(%s)' % st['name']})
                for x in st['gone']:
                    m.cls.pop(x, None)
                for key in [k for k in m.inst if k[0] in st['gone']]:
                    del m.inst[key]
                ndel += 1
                bump(probes, 'deleted_classes', len(st['gone']))
            elif op == 'failed_compile':
                mof = '\n'.join(build_class(x).tomof()
                                for x in st['classes']) + \
                    ('\n this is not mof ;\n' if st.get('tail') == 'syntax'
                     else '\nclass FcBad : NoSuchSuperclass { };\n')
                conn.compile_mof_string(mof, namespace=NS)
                outcome = 'ok'
                V.append({'sig': 'C12/invalid-mof-accepted', 'msg': mof[-80:]})
            elif op == 'inst':
                conn.CreateInstance(CIMInstance(st['cls'],
                                                {'K': st['key']}),
                                    namespace=NS)
                m.inst[(st['cls'].lower(), st['key'])] = True
                touched.append(st['cls'].lower())
                outcome = 'ok'
        except Exception as e:  # pylint: disable=broad-except
            outcome = 'rejected'
            if st.get('reject'):
                bump(faults, 'rejected_%s' % op)
            else:
                V.append({'sig': 'C12/valid-step-rejected/%s%s' % (
                    op, '/' + st['via'] if 'via' in st else ''),
                    'msg': 'step %r rejected: %r' % (
                        {k: (v['name'] if isinstance(v, dict) else v)
                         for k, v in st.items()}, e)})
                return _result(V + orc.V, probes, faults, m, plan,
                               orc.queries, False)
        bump(probes, 'step_%s_%s' % (op, outcome))
        if op == 'create' and not st['cls']['name'].startswith('New'):
            bump(faults, 'recreated_deleted_name')
        # affected classes + subclasses created later + sample
        live = sorted(m.cls)
        sample = set(touched)
        for t in touched:
            sample.update(m.subtree(t)[:2])
        sample.update(rq.sample(live, min(2, len(live))))
        for ln in sorted(x for x in sample if x in m.cls):
            orc.check_class(ln, flags=rq.random() < 0.5)
        for ln in [None] + rq.sample(live, min(2, len(live))):
            orc.check_enums(ln)
    # final: everything
    for ln in sorted(m.cls):
        orc.check_class(ln, flags=False)
    orc.check_enums(None)
    maxdepth = max([m.depth(x) for x in m.cls] + [0])
    novr = sum(1 for s in forest for k in ('props', 'methods')
               for e in s[k] if e['override'])
    bump(probes, 'max_depth_%d' % max([len(Model_chain(forest, s))
                                       for s in forest] + [0]))
    bump(probes, 'overrides', novr)
    nontrivial = novr >= 1 and (nmod + ndel) >= 1 and \
        max(len(Model_chain(forest, s)) for s in forest) >= 3
    for k, v in orc.probes.items():
        bump(probes, k, v)
    return _result(V + orc.V, probes, faults, m, plan, orc.queries,
                   nontrivial)


def Model_chain(forest, spec):
    d = {s['name'].lower(): s for s in forest}
    out = []
    while spec is not None:
        out.append(spec)
        spec = d.get(spec['super'].lower()) if spec['super'] else None
    return out


def _result(V, probes, faults, m, plan, queries, nontrivial):
    seen = set()
    out = []
    for v in V:
        if v['sig'] not in seen:
            seen.add(v['sig'])
            out.append(v)
    shape = sorted((s['name'].lower(), (s['super'] or '').lower(),
                    len(s['props']), len(s['methods']))
                   for s in plan['forest'])
    fp = digest((shape, [(s['op'], s.get('via'), s.get('reject'))
                         for s in plan['steps']],
                 sorted(v['sig'] for v in out)))
    return {'violations': out, 'fingerprint': fp, 'nontrivial': nontrivial,
            'probes': probes, 'faults': faults, 'sim_seconds': 0.0,
            'steps': len(plan['steps']), 'evaluations': max(queries, 1)}


def sample(plan, res):
    return {'classes': len(plan['forest']),
            'steps': [s['op'] for s in plan['steps']]}


def shrink_candidates(plan):
    # drop history steps from the end, then single steps
    n = len(plan['steps'])
    for k in range(n - 1, -1, -1):
        p = copy.deepcopy(plan)
        del p['steps'][k:]
        yield p
    for k in range(n):
        p = copy.deepcopy(plan)
        del p['steps'][k]
        yield p
    # drop leaf classes of the forest that no step refers to
    names = {s['name'].lower() for s in plan['forest']}
    supers = {s['super'].lower() for s in plan['forest'] if s['super']}
    used = set()
    for st in plan['steps']:
        if 'cls' in st and isinstance(st['cls'], dict):
            used.add(st['cls']['name'].lower())
            if st['cls']['super']:
                used.add(st['cls']['super'].lower())
        elif 'cls' in st:
            used.add(st['cls'].lower())
        if 'name' in st:
            used.add(st['name'].lower())
        used.update(st.get('gone', []))
    for s in plan['forest']:
        ln = s['name'].lower()
        if ln not in supers and ln not in used and len(names) > 1:
            p = copy.deepcopy(plan)
            p['forest'] = [x for x in p['forest']
                           if x['name'].lower() != ln]
            yield p
    # strip qualifiers / methods
    for i, s in enumerate(plan['forest']):
        if s['methods']:
            p = copy.deepcopy(plan)
            over = {e['name'].lower() for x in p['forest']
                    for e in x['methods'] if e['override']}
            keep = [e for e in s['methods'] if e['name'].lower() in over]
            if len(keep) != len(s['methods']):
                p['forest'][i]['methods'] = keep
                yield p
