"""C14 - pull enumeration sessions deliver each object exactly once, within
limits.  Model-based history machine over FakedWBEMConnection: interleaved
open/pull/close sessions with arbitrary MaxObjectCount sequences, stale,
foreign, fabricated and wrong-type contexts, repository mutation and
namespace removal during a session, pull operations switched off
mid-session."""
import copy
import uuid

import pywbem
from pywbem import CIMError, CIMInstance, CIMInstanceName

from simkit import modelgen as mg, opgen
from simkit.prng import stream, digest
from checks.c04 import _Ids

ID = 'C14'
LEVEL = 'exploration'
TIERS = {'quick': {'runs': 12000, 'budget_s': 60, 'models': 64},
         'thorough': {'runs': 10 ** 9, 'budget_s': 600, 'models': 4000}}
RUN_WALL = 120
RULE = ('each run = generated repository (result sets of 0..N objects) and a '
        'history of 4-40 steps over 1-4 interleaved enumeration sessions: '
        'open (all 7 Open operations, MaxObjectCount None/0/1/k/>=N), pull '
        '(0/1/k/>=remaining/None), wrong-kind pull, close, pulls/closes with '
        'stale, fabricated and foreign contexts, instance creation/deletion '
        'and namespace removal during a session, disable_pull_operations '
        'toggles; the reference model per session is the list of not yet '
        'delivered objects computed from the traditional operation at open '
        'time; non-trivial = at least one session needed >= 2 responses; '
        'distinct = digest of the (step, outcome class, count, eos) sequence')
COMPONENTS = {
    'real': ['WBEMConnection Open*/Pull*/CloseEnumeration client methods and '
             'their validations', 'pywbem_mock MainProvider _open_response/'
             '_pull_response/CloseEnumeration and context table',
             'FakedWBEMConnection namespace management'],
    'stub': ['nothing (direct object path); uuid4 -> seeded ids']}
ASSUMPTIONS = [
    'the traditional operation issued immediately before the open defines '
    'the expected result set (same connection, same arguments)',
    'no server-side timeout exists in the mock (OperationTimeout is stored '
    'but never read), so no clock is involved']

OPEN_TRAD = {
    'OpenEnumerateInstances': ('EnumerateInstances', 'PullInstancesWithPath'),
    'OpenEnumerateInstancePaths': ('EnumerateInstanceNames',
                                   'PullInstancePaths'),
    'OpenAssociatorInstances': ('Associators', 'PullInstancesWithPath'),
    'OpenAssociatorInstancePaths': ('AssociatorNames', 'PullInstancePaths'),
    'OpenReferenceInstances': ('References', 'PullInstancesWithPath'),
    'OpenReferenceInstancePaths': ('ReferenceNames', 'PullInstancePaths'),
    'OpenQueryInstances': ('ExecQuery', 'PullInstances'),
}
PULLS = ['PullInstancesWithPath', 'PullInstancePaths', 'PullInstances']
INVALID_CTX = 21


def gen_plan(run_seed, tier, index):
    r = stream(run_seed, 'plan')
    mseed = 100000 + r.randrange(TIERS[tier]['models'])
    model = mg.gen_model(mseed, with_methods=False, max_inst=16)
    g = opgen.OpGen(stream(run_seed, 'ops'), model, 'root/cimv2',
                    valid_only=True)
    nsess = r.choice([1, 1, 2, 2, 3, 4])
    steps = []
    state = {}          # sid -> 'open'|'done'|None

    def gen_open(sid):
        name = r.choice(list(OPEN_TRAD)[:6] * 4 + ['OpenQueryInstances'])
        a = {}
        if name == 'OpenQueryInstances':
            a['FilterQueryLanguage'] = 'DMTF:FQL'
            a['FilterQuery'] = r.choice([
                'select * from %s', 'select * from %s', 'SELECT * FROM %s',
                'SELECT * FROM %s', 'select * FROM %s']) % (
                    model['classes'][0]['name'] if r.random() < 0.9
                    else 'NoSuchCls')
            if r.random() < 0.5:
                # (the mock finds the class only behind an upper case FROM)
                a['ReturnQueryResultClass'] = r.choice([True, True, False])
            ns = g.ns(False)
            if ns is not None:
                a['namespace'] = ns
        elif 'Enumerate' in name:
            a['ClassName'] = g.cls(assoc=None, allow_bad=False)
            ns = g.ns(False)
            if ns is not None:
                a['namespace'] = ns
            if name.endswith('Instances'):
                g.flags(a, ['DeepInheritance', 'IncludeClassOrigin'])
                pl = g.proplist()
                if pl is not None:
                    a['PropertyList'] = pl
        else:
            a['InstanceName'] = g.patharg(allow_bad=False)
            if r.random() < 0.2:
                a['ResultClass'] = g.cls(allow_bad=False)
            if r.random() < 0.15:
                a['Role'] = r.choice(['Ante', 'Dep', 'Third'])
            if name.endswith('Instances'):
                pl = g.proplist()
                if pl is not None:
                    a['PropertyList'] = pl
        moc = r.choice([None, 0, 0, 0, 1, 1, 1, 2, 3, 100])
        if r.random() < 0.1:
            a['OperationTimeout'] = r.choice([0, 10])
        return ['open', sid, name, a, moc]

    n = r.randint(4, 40)
    for _ in range(n):
        k = r.random()
        sid = r.randrange(nsess)
        st = state.get(sid)
        if st is None or (st == 'done' and k < 0.5):
            steps.append(gen_open(sid))
            state[sid] = 'open'
        elif k < 0.55:
            steps.append(['pull', sid, r.choice([0, 1, 1, 1, 2, 3, 100,
                                                 None])])
        elif k < 0.63:
            steps.append(['wrongpull', sid, r.choice([0, 1, 5]),
                          r.choice([0, 0, 1, 1, 5, 100])])
        elif k < 0.73:
            steps.append(['close', sid])
            state[sid] = 'done'
        elif k < 0.80:
            steps.append(['badctx', r.choice(['fabricated', 'foreign',
                                              'stale']), sid,
                          r.choice(PULLS + ['CloseEnumeration']),
                          r.choice([1, 5])])
        elif k < 0.88:
            steps.append(['mutate', g.gen(0, []) if False else
                          _mutation(r, g)])
        elif k < 0.92:
            steps.append(['toggle_pull', r.choice([True, False])])
        elif k < 0.95 and len(model['namespaces']) > 1:
            steps.append(['rm_ns', r.choice(model['namespaces'][1:])])
        else:
            steps.append(['pull', sid, r.choice([1, 2])])
    # drain: every session is pulled to the end or closed
    for sid in range(nsess):
        steps.append(['toggle_pull', False])
        steps.append(r.choice([['close', sid], ['drain', sid, r.choice(
            [1, 2, 100])]]))
    # the server's default for an omitted MaxObjectCount is a tuning knob
    # (100 as shipped): small values make "more objects than the default"
    # reachable with small repositories
    return {'check': ID, 'model_seed': mseed, 'steps': steps,
            'ids_seed': r.getrandbits(32),
            'default_max': r.choice([100, 100, 1, 2, 3, 5]),
            # a stub query engine behind ExecQuery/OpenQueryInstances (the
            # mock's own one always answers CIM_ERR_NOT_SUPPORTED)
            'query_engine': r.random() < 0.6,
            # ... that hands out one cached list object per query
            'query_shared': r.random() < 0.4}


def _mutation(r, g):
    if r.random() < 0.5:
        ns = g.ns(False)
        ispec, c = g.new_inst(ns)
        a = {'NewInstance': {'$inst': ispec, 'cdesc': c}}
        if ns is not None:
            a['namespace'] = ns
        return {'op': 'CreateInstance', 'a': a}
    return {'op': 'DeleteInstance', 'a': {'InstanceName':
                                          g.patharg(allow_bad=False)}}


def okey(o):
    """Identity of a delivered object (host ignored)."""
    if isinstance(o, CIMInstance):
        p = o.path.copy() if o.path is not None else None
        if p is not None:
            p.host = None
        return ('I', p.to_wbem_uri('canonical') if p is not None else None,
                o.tocimxmlstr(ignore_path=True))
    if isinstance(o, CIMInstanceName):
        p = o.copy()
        p.host = None
        return ('P', p.to_wbem_uri('canonical'))
    return ('?', repr(o))


def empty_namespace(conn, ns):
    """Remove everything from a namespace through the public operations."""
    for cn in conn.EnumerateClassNames(namespace=ns, DeepInheritance=True):
        try:
            for p in conn.EnumerateInstanceNames(cn, namespace=ns):
                try:
                    conn.DeleteInstance(p)
                except CIMError:
                    pass
        except CIMError:
            pass
    for cn in conn.EnumerateClassNames(namespace=ns):
        try:
            conn.DeleteClass(cn, namespace=ns)
        except CIMError:
            pass
    for q in conn.EnumerateQualifiers(namespace=ns):
        conn.DeleteQualifier(q.name, namespace=ns)


def execute(plan):
    model = mg.gen_model(plan['model_seed'], with_methods=False,
                         max_inst=16)
    saved_uuid4 = uuid.uuid4
    uuid.uuid4 = _Ids(plan['ids_seed'])
    import pywbem_mock._mainprovider as _mp
    saved_defmax = _mp.DEFAULT_MAX_OBJECT_COUNT
    DEFMAX = plan.get('default_max', 100)
    _mp.DEFAULT_MAX_OBJECT_COUNT = DEFMAX
    V = []
    probes = {}
    trace = []

    def viol(sig, msg):
        V.append({'sig': 'C14/' + sig, 'msg': msg})

    def bump(k, n=1):
        probes[k] = probes.get(k, 0) + n

    try:
        conn = mg.fresh_conn(model)
        other = mg.fresh_conn(model)        # an unrelated server
        if plan.get('query_engine'):
            mg.enable_query(conn, shared=plan.get('query_shared', False))
            mg.enable_query(other)
            if plan.get('query_shared'):
                bump('query_engine_with_shared_result_list')
        sess = {}        # sid -> dict(remaining, pull, ctx, state, ns...)
        old_ctx = {}     # sid -> last context of a finished session
        removed_ns = set()
        pull_disabled = False
        multi = 0

        def table():
            return conn._mainprovider.enumeration_contexts  # noqa

        def deliver(sid, s, objs, what, moc, eos, i):
            keys = [okey(o) for o in objs]
            limit = moc
            if limit is not None and len(keys) > limit:
                viol('more-than-maxobjectcount',
                     'step %d %s session %d: MaxObjectCount=%s but %d '
                     'objects delivered' % (i, what, sid, moc, len(keys)))
            for kx in keys:
                if kx in s['remaining']:
                    s['remaining'].remove(kx)
                elif kx in s['delivered']:
                    viol('delivered-twice', 'step %d %s session %d: object '
                         '%s delivered twice' % (i, what, sid, kx[:2]))
                else:
                    viol('unexpected-object', 'step %d %s session %d: object '
                         '%s is not in the result of the traditional '
                         'operation' % (i, what, sid, kx[:2]))
                s['delivered'].append(kx)
            s['responses'] += 1
            if eos and s['remaining']:
                viol('eos-while-objects-remain',
                     'step %d %s session %d: eos reported but %d objects '
                     'were never delivered' %
                     (i, what, sid, len(s['remaining'])))
            if moc is not None and moc > 0 and not keys and not eos:
                viol('no-progress', 'step %d %s session %d: MaxObjectCount='
                     '%d, no object and no eos' % (i, what, sid, moc))

        for i, st in enumerate(plan['steps']):
            kind = st[0]
            if kind == 'open':
                _, sid, name, a, moc = st
                if sid in sess and sess[sid]['state'] == 'open':
                    # generator keeps one open session per sid; close first
                    try:
                        conn.CloseEnumeration(sess[sid]['ctx'])
                    except pywbem.Error:
                        # cannot be closed right now (pull disabled,
                        # namespace gone): keep the session, skip this open
                        continue
                    old_ctx[sid] = sess[sid]['ctx']
                    sess[sid]['state'] = 'closed'
                trad, pullop = OPEN_TRAD[name]
                ta = {k: v for k, v in a.items()
                      if k not in ('OperationTimeout', 'FilterQueryLanguage',
                                   'FilterQuery')}
                if trad == 'ExecQuery':
                    ta = {'QueryLanguage': a['FilterQueryLanguage'],
                          'Query': a['FilterQuery']}
                    if 'namespace' in a:
                        ta['namespace'] = a['namespace']
                if 'InstanceName' in ta:
                    ta['ObjectName'] = ta.pop('InstanceName')
                exp = opgen.call(conn, {'op': trad, 'a': ta}, [])
                oa = dict(a)
                if moc is not None:
                    oa['MaxObjectCount'] = moc
                ctx_before = set(table())
                got = opgen.call(conn, {'op': name, 'a': oa}, [])
                trace.append(('open', name, got[0], moc))
                if got[0] == 'exc' and set(table()) != ctx_before:
                    viol('context-left-by-failed-open',
                         'step %d %s%r raised %r but left the enumeration '
                         'context(s) %s on the server' % (
                             i, name, oa, got[1],
                             sorted(set(table()) - ctx_before)))
                    continue
                bump('open_' + ('none' if moc is None else
                                'zero' if moc == 0 else 'pos'))
                if pull_disabled:
                    if got[0] != 'exc' or not isinstance(got[1], CIMError):
                        viol('open-with-pull-disabled',
                             'step %d %s succeeded although pull operations '
                             'are disabled' % (i, name))
                    continue
                if exp[0] == 'exc':
                    if got[0] != 'exc':
                        viol('open-succeeds-where-traditional-fails',
                             'step %d %s%r: traditional %s raised %r, open '
                             'returned' % (i, name, a, trad, exp[1]))
                    elif isinstance(exp[1], CIMError) and not \
                            isinstance(got[1], CIMError):
                        viol('open-error-differs',
                             'step %d %s%r: traditional raised %r, open '
                             'raised %r' % (i, name, a, exp[1], got[1]))
                    continue
                if got[0] == 'exc':
                    if oa.get('ReturnQueryResultClass') and isinstance(
                            got[1], CIMError) and got[1].status_code in (
                                pywbem.CIM_ERR_INVALID_QUERY,
                                pywbem.CIM_ERR_NOT_FOUND):
                        # the mock could not name the result class
                        bump('query_result_class_not_found')
                        continue
                    viol('open-fails-where-traditional-succeeds',
                         'step %d %s%r raised %r' % (i, name, oa, got[1]))
                    continue
                res = got[1]
                objs = getattr(res, 'instances', None)
                if objs is None:
                    objs = res.paths
                s = {'remaining': [okey(o) for o in exp[1]], 'delivered': [],
                     'pull': pullop, 'ctx': res.context, 'state': 'open',
                     'responses': 0, 'name': name, 'args': oa,
                     'ns': (res.context[1] if res.context else None)}
                sess[sid] = s
                deliver(sid, s, objs, name,
                        moc if moc is not None else DEFMAX,
                        res.eos, i)
                if res.eos:
                    if res.context is not None:
                        viol('context-with-eos', 'step %d %s' % (i, name))
                    s['state'] = 'eos'
                elif res.context is None:
                    viol('no-context-without-eos', 'step %d %s' % (i, name))
                    s['state'] = 'broken'
                continue
            if kind in ('pull', 'drain', 'wrongpull', 'close'):
                sid = st[1]
                s = sess.get(sid)
                if s is None or s['state'] not in ('open',):
                    # session already finished: the old context is refused
                    ctx = (s or {}).get('ctx') or old_ctx.get(sid)
                    if s is not None and s.get('last_ctx'):
                        ctx = s['last_ctx']
                    if ctx is None:
                        continue
                    if kind == 'close':
                        got = opgen.call(conn, {'op': 'CloseEnumeration',
                                                'p': [ctx]}, [])
                    else:
                        got = opgen.call(conn, {
                            'op': (s or {}).get('pull',
                                                'PullInstancesWithPath'),
                            'p': [ctx, 1]}, [])
                    bump('stale_context_used')
                    trace.append(('stale', kind, got[0]))
                    if ctx[1].lower() in removed_ns or pull_disabled:
                        ok = got[0] == 'exc' and isinstance(got[1], CIMError)
                    else:
                        ok = got[0] == 'exc' and isinstance(
                            got[1], CIMError) and \
                            got[1].status_code == INVALID_CTX
                    if not ok:
                        viol('finished-context-accepted',
                             'step %d %s on the context of finished session '
                             '%d -> %r' % (i, kind, sid, got))
                    continue
                ctx = s['ctx']
                if kind == 'close':
                    got = opgen.call(conn, {'op': 'CloseEnumeration',
                                            'p': [ctx]}, [])
                    trace.append(('close', got[0]))
                    if got[0] == 'exc' and not (
                            pull_disabled or (s['ns'] or '').lower() in removed_ns):
                        viol('close-failed', 'step %d CloseEnumeration of '
                             'open session %d raised %r' % (i, sid, got[1]))
                    if got[0] == 'ok' or ctx[0] not in table():
                        s['state'] = 'closed'
                        s['last_ctx'] = ctx
                    if got[0] == 'ok' and ctx[0] in table():
                        viol('context-left-after-close',
                             'step %d: context of session %d still in the '
                             'server table after CloseEnumeration' % (i, sid))
                    if got[0] == 'exc' and (s['ns'] or '').lower() in removed_ns and \
                            not pull_disabled and ctx[0] in table():
                        viol('context-left-after-close',
                             'step %d: CloseEnumeration of session %d (its '
                             'namespace was removed) raised %r and left the '
                             'context open' % (i, sid, got[1]))
                    bump('close_open_session')
                    continue
                if kind == 'wrongpull':
                    wrong = [p for p in PULLS if p != s['pull']]
                    wp = wrong[st[2] % len(wrong)]
                    before = list(s['remaining'])
                    got = opgen.call(conn, {'op': wp, 'p': [
                        ctx, st[3] if len(st) > 3 else 1]}, [])
                    trace.append(('wrongpull', got[0]))
                    bump('wrong_kind_pull')
                    if got[0] != 'exc' or not isinstance(got[1], CIMError):
                        viol('wrong-kind-pull-accepted',
                             'step %d %s on a %s session -> %r' %
                             (i, wp, s['name'], got))
                        s['state'] = 'broken'
                    s['remaining'] = before
                    continue
                # pull / drain
                rounds = 1 if kind == 'pull' else 200
                for _ in range(rounds):
                    if s['state'] != 'open':
                        break
                    moc = st[2]
                    got = opgen.call(conn, {'op': s['pull'],
                                            'p': [s['ctx'], moc]}, [])
                    trace.append(('pull', got[0], moc))
                    bump('pull_' + ('none' if moc is None else
                                    'zero' if moc == 0 else 'pos'))
                    if moc is None and got[0] == 'exc' and isinstance(
                            got[1], (ValueError, TypeError)):
                        # rejected locally: nothing happened
                        break
                    if got[0] == 'exc':
                        if pull_disabled or (s['ns'] or '').lower() in removed_ns:
                            bump('pull_refused_env')
                            break
                        viol('pull-failed', 'step %d %s(MaxObjectCount=%s) on '
                             'open session %d raised %r' %
                             (i, s['pull'], moc, sid, got[1]))
                        s['state'] = 'broken'
                        break
                    res = got[1]
                    objs = getattr(res, 'instances', None)
                    if objs is None:
                        objs = res.paths
                    deliver(sid, s, objs, s['pull'], moc, res.eos, i)
                    if res.eos:
                        s['state'] = 'eos'
                        s['last_ctx'] = s['ctx']
                        if s['ctx'][0] in table():
                            viol('context-left-after-eos',
                                 'step %d: context still in server table '
                                 'after eos' % i)
                    elif res.context is None:
                        viol('no-context-without-eos', 'step %d pull' % i)
                        s['state'] = 'broken'
                    else:
                        s['ctx'] = res.context
                if kind == 'drain' and s['state'] == 'open' and \
                        not (pull_disabled or (s['ns'] or '').lower() in removed_ns):
                    viol('enumeration-does-not-terminate',
                         'session %d not finished after 200 pulls' % sid)
                continue
            if kind == 'badctx':
                _, how, sid, opname, moc = st
                if how == 'fabricated':
                    ctx = ('fabricated-context-%d' % i, 'root/cimv2')
                elif how == 'foreign':
                    fo = opgen.call(other, {
                        'op': 'OpenEnumerateInstancePaths',
                        'a': {'ClassName': model['classes'][0]['name'],
                              'MaxObjectCount': 0}}, [])
                    if fo[0] != 'ok' or fo[1].context is None:
                        continue
                    ctx = fo[1].context
                    bump('foreign_context_used')
                else:
                    s = sess.get(sid)
                    ctx = (s or {}).get('last_ctx') or old_ctx.get(sid)
                    if ctx is None:
                        continue
                nopen0 = len(table())
                if opname == 'CloseEnumeration':
                    got = opgen.call(conn, {'op': opname, 'p': [ctx]}, [])
                else:
                    got = opgen.call(conn, {'op': opname, 'p': [ctx, moc]},
                                     [])
                trace.append(('badctx', how, got[0]))
                if got[0] != 'exc' or not isinstance(got[1], CIMError):
                    viol('bad-context-accepted/' + how,
                         'step %d %s with a %s context -> %r' %
                         (i, opname, how, got))
                elif got[1].status_code != INVALID_CTX and \
                        not pull_disabled and ctx[1].lower() not in removed_ns:
                    viol('bad-context-wrong-status/' + how,
                         'step %d %s with a %s context -> %r' %
                         (i, opname, how, got[1]))
                if len(table()) != nopen0:
                    viol('bad-context-changed-table',
                         'step %d: %s with a %s context changed the number of '
                         'open contexts' % (i, opname, how))
                if how == 'foreign':
                    # the foreign server's own session must be intact
                    fr = opgen.call(other, {'op': 'CloseEnumeration',
                                            'p': [ctx]}, [])
                    if fr[0] != 'ok':
                        viol('foreign-session-damaged',
                             'step %d: the other server lost its session: %r'
                             % (i, fr))
                continue
            if kind == 'mutate':
                opgen.call(conn, st[1], [])
                bump('mutation_during_session')
                continue
            if kind == 'toggle_pull':
                pull_disabled = st[1]
                conn.disable_pull_operations = st[1]
                if st[1]:
                    bump('pull_disabled')
                continue
            if kind == 'rm_ns':
                ns = st[1]
                if ns in removed_ns:
                    continue
                try:
                    empty_namespace(conn, ns)
                    conn.remove_namespace(ns)
                    removed_ns.add(ns.lower())
                    bump('namespace_removed')
                    if any(s['state'] == 'open' and s['ns'] and
                           s['ns'].lower() == ns.lower()
                           for s in sess.values()):
                        bump('namespace_removed_during_session')
                    removed_ns.add(ns.lower())
                except pywbem.Error as e:
                    viol('harness-rm-ns', repr(e))
                continue
        # end: no context may stay open when all sessions ended by eos/close
        left = [s for s in sess.values() if s['state'] == 'open']
        for s in sess.values():
            if s['responses'] >= 2:
                multi += 1
        if not left and table():
            viol('context-leaked',
                 'all sessions ended by eos or CloseEnumeration but %d '
                 'enumeration context(s) remain on the server' %
                 len(table()))
        for sid, s in sess.items():
            if s['state'] == 'eos' and s['remaining']:
                pass   # already reported as eos-while-objects-remain
    finally:
        uuid.uuid4 = saved_uuid4
        _mp.DEFAULT_MAX_OBJECT_COUNT = saved_defmax
    seen = set()
    out = []
    for v in V:
        if v['sig'] not in seen:
            seen.add(v['sig'])
            out.append(v)
    return {'violations': out, 'fingerprint': digest(trace),
            'nontrivial': multi >= 1, 'probes': probes, 'faults': {
                k: v for k, v in probes.items()
                if k in ('stale_context_used', 'foreign_context_used',
                         'wrong_kind_pull', 'namespace_removed_during_session',
                         'pull_disabled', 'mutation_during_session')},
            'sim_seconds': 0.0, 'steps': len(plan['steps'])}


def sample(plan, res):
    return {'model_seed': plan['model_seed'], 'steps': plan['steps'][:10],
            'n_steps': len(plan['steps'])}


def shrink_candidates(plan):
    n = len(plan['steps'])
    for i in range(n - 1, -1, -1):
        p = copy.deepcopy(plan)
        del p['steps'][i]
        yield p
    for i, st in enumerate(plan['steps']):
        if st[0] == 'open':
            for k in list(st[3]):
                if k in ('ClassName', 'InstanceName', 'FilterQuery',
                         'FilterQueryLanguage'):
                    continue
                p = copy.deepcopy(plan)
                del p['steps'][i][3][k]
                yield p
