"""C18 - the subscription manager owns exactly what it created and removes
exactly that.  Multi-manager histories (interleaved clients of the same mock
WBEM server(s)) with client crashes at arbitrary request indexes, restarts
with the same manager ID, permanent and foreign instances; reference model =
per server a map Name -> (kind, owner) plus subscription edges; every step is
judged by the legality of the server-store diff and by comparing the
managers' owned/all lists with the model and the server."""
import copy
import warnings

import pywbem
from pywbem import CIMError, WBEMServer, WBEMSubscriptionManager

from simkit import interop
from simkit.prng import stream, digest

ID = 'C18'
LEVEL = 'exploration'
TIERS = {'quick': {'runs': 800, 'budget_s': 75},
         'thorough': {'runs': 10 ** 9, 'budget_s': 600}}
RUN_WALL = 180
RULE = ('each run = 1-2 mock WBEM servers with Interop namespace and '
        'subscription providers, 1-3 subscription managers (IDs drawn from '
        'strings with regex metacharacters and prefixes of one another) '
        'whose 6-25 operations are interleaved: add/remove destination, '
        'filter, subscription (owned and permanent), duplicates, removals in '
        'any order, remove_server, remove_all_servers, context-manager exit, '
        'foreign instances created behind the managers\' backs, client '
        'crash at the k-th request inside an operation followed by a restart '
        'with the same ID; non-trivial = >= 2 instances were created and a '
        'removal, restart or second manager was involved; distinct = digest '
        'of the (operation, outcome, store diff) sequence')
COMPONENTS = {
    'real': ['pywbem WBEMSubscriptionManager, WBEMServer',
             'pywbem_mock subscription providers, namespace provider, '
             'repository (DMTF schema 2.49 classes compiled by the mock)'],
    'stub': ['crash injection wrapper around the manager\'s connection',
             'socket.getfqdn pinned']}
ASSUMPTIONS = [
    'managers only remove instances they own or permanent ones (removing '
    'another manager\'s owned instance by path is not refused by pywbem and '
    'makes that manager\'s local list stale by design)',
    'permanent / foreign instances are never given a Name that is exactly '
    'of the owned form pywbem<kind>:<ID of a manager in the run>:<id>',
    'after a crash the oracle is the recovery clause only: the restarted '
    'manager rediscovers exactly what the model derives from the server '
    'state']

MGR_IDS = ['m1', 'm', 'm1x', 'a.c', 'abc', 'a+', 'aa', '(x)', 'x', 'x|y',
           '[ab]', 'a', 'b', 'a?', 'M1', 'm 1', 'a*', '', '.*', 'a\\d',
           'a1', '^a$', 'fred', 'owned', 'owned', 'permanent',
           'pywbemfilter', 'pywbemdestination', 'Owned']
DEST_IDS = ['d1', 'd2', 'd.1', 'd[1]', 'x', 'd1x', 'D1', '', ' ', 'x:y']
FILT_IDS = ['f1', 'f2', 'f.1', 'f(1)', 'x', 'f1x', 'F1', 'x:y']
URLS = ['http://localhost:5000', 'https://host.example.com:5001',
        'http://10.1.2.3:50000', 'http://[::1]:5000', 'http://localhost:5001',
        'https://localhost:5000']
BAD_URLS = ['localhost:5000', 'http://nohostport', 'ftp://x:1', '']
SVR_URLS = ['http://FakedUrl1:5988', 'http://FakedUrl2:5988']
DEST_CLS = 'CIM_ListenerDestinationCIMXML'
FILT_CLS = 'CIM_IndicationFilter'
SUB_CLS = 'CIM_IndicationSubscription'


class SimCrash(BaseException):
    pass


def gen_plan(run_seed, tier, index):
    r = stream(run_seed, 'plan')
    nsrv = r.choice([1, 1, 1, 2, 2])
    nm = r.choice([1, 2, 2, 3])
    ids = []
    while len(ids) < nm:
        if ids and r.random() < 0.5:
            # an id related to an earlier one (prefix / regex look-alike)
            base = ids[0]
            cand = r.choice([base + 'x', base[:-1] or 'q', base.upper(),
                             base.replace('b', '.').replace('1', '.'),
                             base + '.*', base + '+'])
        else:
            cand = r.choice(MGR_IDS)
        if cand not in ids and ':' not in cand:
            ids.append(cand)
    steps = []
    for m in range(nm):
        for s in range(nsrv):
            if s == 0 or r.random() < 0.85:
                steps.append(['add_server', m, s])
    n = r.randint(6, 25)
    perm_n = [0]

    def pname(kind):
        perm_n[0] += 1
        k = r.random()
        if k < 0.6:
            return 'perm%s%d' % (kind, perm_n[0])
        other = r.choice(ids + ['zz'])
        # a permanent / foreign name that looks almost like an owned one.
        # (A user-chosen Name that is exactly of the owned form of a manager
        # ID in use cannot be told apart by a Name based discovery and is
        # outside the property: such names get a further ':' segment.)
        word = 'filter' if kind == 'f' else 'destination'
        name = r.choice(['pywbem%s:%s:x%d' % (word, other, perm_n[0]),
                         'pywbem%s:%sx:%d' % (word, other, perm_n[0]),
                         'pywbem%s:owned:%s:%d' % (word, other, perm_n[0]),
                         'Pywbem%s:%s:%d' % (word, other, perm_n[0])])
        parts = name.split(':')
        if len(parts) == 3 and parts[0] == 'pywbem' + word and \
                parts[1] in ids:
            name += ':y'
        return name
    for _ in range(n):
        m = r.randrange(nm)
        s = r.randrange(nsrv)
        k = r.random()
        if k < 0.18:
            owned = r.random() < 0.75
            steps.append(['add_dest', m, s,
                          r.choice(URLS if r.random() < 0.93 else BAD_URLS),
                          owned,
                          r.choice(DEST_IDS) if owned else pname('d'),
                          r.choice([None, None, 'transient', 'permanent'])])
        elif k < 0.34:
            owned = r.random() < 0.75
            steps.append(['add_filter', m, s, owned,
                          r.choice(FILT_IDS) if owned else pname('f')])
        elif k < 0.52:
            steps.append(['add_sub', m, s, r.random() < 0.8,
                          r.randrange(6), r.choice([None, [r.randrange(6)],
                                                    [r.randrange(6),
                                                     r.randrange(6)]]),
                          # cross: the filter / destinations may be owned by
                          # another manager
                          r.random() < 0.2])
        elif k < 0.60:
            steps.append(['rm_sub', m, s, r.randrange(6)])
        elif k < 0.67:
            steps.append(['rm_filter', m, s, r.randrange(6)])
        elif k < 0.74:
            steps.append(['rm_dest', m, s, [r.randrange(6)]
                          if r.random() < 0.7 else
                          [r.randrange(6), r.randrange(6)]])
        elif k < 0.79:
            steps.append(['remove_server', m, s])
            steps.append(['add_server', m, s])
        elif k < 0.82:
            steps.append([r.choice(['remove_all', 'exit']), m])
            steps.append(['add_server', m, 0])
        elif k < 0.90:
            steps.append(['restart', m])
        elif k < 0.95:
            steps.append(['foreign', s, r.choice(['d', 'f']),
                          pname(r.choice(['d', 'f']))])
        else:
            steps.append(['crash_next', m, r.choice([0, 1, 1, 2, 2, 3, 4])])
    for m in range(nm):
        steps.append([r.choice(['remove_all', 'exit', 'restart_remove']), m])
    return {'check': ID, 'nservers': nsrv, 'mgr_ids': ids, 'steps': steps}


def names_of(insts):
    return sorted(i['Name'] for i in insts)


def sub_key(inst_or_path):
    p = getattr(inst_or_path, 'path', inst_or_path)
    return (p.keybindings['Filter'].keybindings['Name'],
            p.keybindings['Handler'].keybindings['Name'])


class World:
    def __init__(self, plan):
        self.servers = [interop.fresh(SVR_URLS[i])
                        for i in range(plan['nservers'])]
        self.ids = plan['mgr_ids']
        self.mgrs = {}        # m -> manager object or None
        self.conns = {}       # (m, s) -> conn copy
        self.reg = {}         # m -> set of s registered
        self.crash_at = {}    # m -> k or None
        self.nreq = {}        # m -> request counter in current op
        # model
        self.owner = [dict() for _ in self.servers]      # (kind, Name)->owner
        self.subown = [dict() for _ in self.servers]     # (fn, dn) -> owner
        for m in range(len(self.ids)):
            self.new_mgr(m)

    def new_mgr(self, m):
        self.mgrs[m] = WBEMSubscriptionManager(
            subscription_manager_id=self.ids[m])
        self.reg[m] = set()
        self.crash_at[m] = None

    def conn(self, m, s):
        if (m, s) not in self.conns:
            c = self.servers[s].copy()
            orig = c._imethodcall  # noqa
            w = self

            def wrapped(methodname, namespace, response_params_rqd=None,
                        **params):
                k = w.crash_at.get(m)
                if k is not None:
                    if w.nreq[m] == k:
                        w.crash_at[m] = None
                        raise SimCrash()
                    w.nreq[m] += 1
                return orig(methodname, namespace, **params)
            c._imethodcall = wrapped  # noqa
            self.conns[(m, s)] = c
        return self.conns[(m, s)]

    # ---- server truth
    def store(self, s):
        c = self.servers[s]
        d = {(('d', i['Name'])) for i in c.EnumerateInstances(
            DEST_CLS, namespace=interop.INTEROP)}
        f = {(('f', i['Name'])) for i in c.EnumerateInstances(
            FILT_CLS, namespace=interop.INTEROP)}
        su = {('s',) + sub_key(i) for i in c.EnumerateInstances(
            SUB_CLS, namespace=interop.INTEROP)}
        return d | f | su

    def path_of(self, s, kind, name):
        c = self.servers[s]
        cls = DEST_CLS if kind == 'd' else FILT_CLS
        for p in c.EnumerateInstanceNames(cls, namespace=interop.INTEROP):
            if p.keybindings['Name'] == name:
                return p
        return None

    def sub_path(self, s, key):
        for p in self.servers[s].EnumerateInstanceNames(
                SUB_CLS, namespace=interop.INTEROP):
            if sub_key(p) == key:
                return p
        return None

    # ---- model queries
    def owned(self, m, s):
        d = sorted(n for (k, n), o in self.owner[s].items()
                   if k == 'd' and o == m)
        f = sorted(n for (k, n), o in self.owner[s].items()
                   if k == 'f' and o == m)
        su = sorted(k for k, o in self.subown[s].items() if o == m)
        return d, f, su

    def blocked(self, m, servers):
        """True if an owned filter or destination of manager m is referenced
        by a subscription that m does not own (so it cannot be removed)."""
        for s in servers:
            for (f, d), o in self.subown[s].items():
                if o != m and (self.owner[s].get(('f', f)) == m or
                               self.owner[s].get(('d', d)) == m):
                    return True
        return False

    def pick(self, r_idx, items):
        items = sorted(items)
        return items[r_idx % len(items)] if items else None


def execute(plan):
    import pywbem._subscription_manager as sm
    saved_fqdn = sm.getfqdn
    sm.getfqdn = lambda *a: 'simclient.example.com'
    V = []
    probes = {}
    faults = {}
    trace = []
    created = [0]
    involved = [0]

    def viol(sig, msg):
        V.append({'sig': 'C18/' + sig, 'msg': msg})

    def bump(d, k, n=1):
        d[k] = d.get(k, 0) + n

    warnings.simplefilter('ignore')
    try:
        w = World(plan)
        ids = plan['mgr_ids']
        pending_crash = {}

        def check_lists(i, what):
            """owned lists == model == server; all lists == server."""
            for m, mgr in w.mgrs.items():
                if mgr is None:
                    continue
                for s in sorted(w.reg[m]):
                    sid = SVR_URLS[s]
                    truth = w.store(s)
                    md, mf, ms = w.owned(m, s)
                    try:
                        gd = names_of(mgr.get_owned_destinations(sid))
                        gf = names_of(mgr.get_owned_filters(sid))
                        gs = sorted(sub_key(x) for x in
                                    mgr.get_owned_subscriptions(sid))
                    except Exception as e:  # pylint: disable=broad-except
                        viol('get-owned-raised/' + type(e).__name__,
                             'step %d %s: manager %r server %d: %r' %
                             (i, what, ids[m], s, e))
                        return False
                    for kind, got, mod in (('destinations', gd, md),
                                           ('filters', gf, mf),
                                           ('subscriptions', gs, ms)):
                        if got != mod:
                            extra = [x for x in got if x not in mod]
                            miss = [x for x in mod if x not in got]
                            k2 = 'foreign-claimed' if extra and all(
                                w.owner[s].get((kind[0], x), 'none') != m
                                for x in extra) and kind != 'subscriptions' \
                                else 'owned-list-differs'
                            if kind == 'subscriptions' and extra and \
                                    not miss and all(
                                        w.subown[s].get(x, m) != m
                                        and (w.owner[s].get(('f', x[0])) == m
                                             or w.owner[s].get(
                                                 ('d', x[1])) == m)
                                        for x in extra):
                                # the subscription of another manager on an
                                # owned filter / destination of this one
                                k2 = 'rediscovery-claims-foreign-sub-on-' \
                                    'owned-end'
                            viol('%s/%s' % (k2, kind),
                                 'step %d %s: manager %r (server %d) lists '
                                 'owned %s %s, the model says %s (extra %s, '
                                 'missing %s); manager ids %r' %
                                 (i, what, ids[m], s, kind, got, mod, extra,
                                  miss, ids))
                            return False
                    for n in gd:
                        if ('d', n) not in truth:
                            viol('owned-not-on-server', 'step %d %s: manager '
                                 '%r lists destination %r which is not in '
                                 'the server' % (i, what, ids[m], n))
                            return False
                    for n in gf:
                        if ('f', n) not in truth:
                            viol('owned-not-on-server', 'step %d %s: manager '
                                 '%r lists filter %r which is not in the '
                                 'server' % (i, what, ids[m], n))
                            return False
                    for k in gs:
                        if ('s',) + k not in truth:
                            viol('owned-not-on-server', 'step %d %s: manager '
                                 '%r lists subscription %r which is not in '
                                 'the server' % (i, what, ids[m], k))
                            return False
                    try:
                        ad = set(('d', n) for n in names_of(
                            mgr.get_all_destinations(sid)))
                        af = set(('f', n) for n in names_of(
                            mgr.get_all_filters(sid)))
                        asu = set(('s',) + sub_key(x) for x in
                                  mgr.get_all_subscriptions(sid))
                    except Exception as e:  # pylint: disable=broad-except
                        viol('get-all-raised/' + type(e).__name__, repr(e))
                        return False
                    if ad | af | asu != truth:
                        viol('all-list-differs', 'step %d %s: manager %r: '
                             'get_all_* %s != server store %s' %
                             (i, what, ids[m], sorted(ad | af | asu),
                              sorted(truth)))
                        return False
            return True

        def apply_diff(s, before, after, m, owned_op, expected_add,
                       expected_del, i, what, crashed):
            added = after - before
            removed = before - after
            bad_add = added - expected_add
            bad_del = removed - expected_del
            if bad_add or bad_del:
                viol('unexpected-store-change',
                     'step %d %s (manager %r, server %d): store gained %s and '
                     'lost %s which the operation may not touch (allowed +%s '
                     '-%s)' % (i, what, ids[m] if m is not None else None, s,
                               sorted(bad_add), sorted(bad_del),
                               sorted(expected_add), sorted(expected_del)))
            for x in added:
                created[0] += 1
                if x[0] == 's':
                    w.subown[s][x[1:]] = m if owned_op else None
                else:
                    w.owner[s][x] = m if owned_op else None
            for x in removed:
                if x[0] == 's':
                    w.subown[s].pop(x[1:], None)
                else:
                    w.owner[s].pop(x, None)
            return added, removed

        for i, st in enumerate(plan['steps']):
            if V:
                break
            kind = st[0]
            if kind == 'crash_next':
                pending_crash[st[1]] = st[2]
                continue
            if kind == 'foreign':
                _, s, k, name = st
                helper = WBEMSubscriptionManager('zz-foreign-helper')
                sid = helper.add_server(WBEMServer(w.servers[s].copy()))
                before = w.store(s)
                try:
                    if k == 'd':
                        helper.add_destination(sid, URLS[0], owned=False,
                                               name=name)
                    else:
                        helper.add_filter(sid, 'root/cimv2', 'SELECT * FROM '
                                          'CIM_AlertIndication', 'WQL',
                                          owned=False, name=name)
                except pywbem.Error:
                    pass
                apply_diff(s, before, w.store(s), None, False,
                           {(k, name)}, set(), i, 'foreign', False)
                bump(faults, 'foreign_instance')
                check_lists(i, 'foreign')
                continue
            m = st[1]
            mgr = w.mgrs[m]
            if kind in ('restart', 'restart_remove'):
                involved[0] += 1
                regs = sorted(w.reg[m])
                w.new_mgr(m)
                mgr = w.mgrs[m]
                for s in regs:
                    try:
                        mgr.add_server(WBEMServer(w.conn(m, s)))
                        w.reg[m].add(s)
                    except Exception as e:  # pylint: disable=broad-except
                        viol('add-server-raised/' + type(e).__name__,
                             'step %d restart of %r: %r' % (i, ids[m], e))
                # the rediscovery rule for subscriptions: owned iff the
                # filter or the destination is owned
                for s in regs:
                    for key, o in list(w.subown[s].items()):
                        ends = (w.owner[s].get(('f', key[0])) == m or
                                w.owner[s].get(('d', key[1])) == m)
                        if o == m and not ends:
                            bump(probes, 'owned_sub_on_two_permanent_ends')
                            sid = SVR_URLS[s]
                            got = sorted(sub_key(x) for x in
                                         mgr.get_owned_subscriptions(sid))
                            if key not in got:
                                viol('rediscovery-misses-owned-sub-on-'
                                     'permanent-ends',
                                     'step %d: manager %r created owned '
                                     'subscription %r between two permanent '
                                     'instances; after a restart it is not '
                                     'rediscovered' % (i, ids[m], key))
                                w.subown[s][key] = None
                        elif o != m and ends and o is None:
                            # permanent sub on an owned end cannot be created
                            pass
                bump(faults, 'client_restart')
                trace.append(('restart', m))
                if not check_lists(i, 'restart of %r' % ids[m]):
                    break
                if kind == 'restart':
                    continue
                kind = 'remove_all'
            what = '%s%r' % (kind, st[2:])
            w.nreq[m] = 0
            w.crash_at[m] = pending_crash.pop(m, None)
            crashed = False
            outcome = None
            blocked = False
            befores = {s: w.store(s) for s in range(len(w.servers))}
            s = st[2] if len(st) > 2 and isinstance(st[2], int) and \
                kind not in ('remove_all', 'exit') else None
            sid = SVR_URLS[s] if s is not None else None
            exp_add, exp_del = set(), set()
            owned_op = True

            def hosty(path, i=i):
                # in some steps the caller's path names the host (as paths
                # returned by the association operations do)
                if i % 4 == 1:
                    path = path.copy()
                    path.host = SVR_URLS[s].split('//')[-1]
                    bump(probes, 'removal_by_path_with_host')
                return path
            try:
                if kind == 'add_server':
                    if s in w.reg[m]:
                        continue
                    mgr.add_server(WBEMServer(w.conn(m, s)))
                    w.reg[m].add(s)
                elif s is not None and s not in w.reg[m]:
                    # the server is not (or no longer) registered with this
                    # manager: documented as ValueError, nothing is sent
                    bump(probes, 'call_for_unregistered_server')
                    fp = pywbem.CIMInstanceName(
                        FILT_CLS, {'Name': 'x'}, namespace='interop')
                    dp = pywbem.CIMInstanceName(
                        DEST_CLS, {'Name': 'x'}, namespace='interop')
                    calls = {
                        'add_dest': lambda: mgr.add_destination(
                            sid, URLS[0], owned=True, destination_id='u'),
                        'add_filter': lambda: mgr.add_filter(
                            sid, 'root/cimv2', 'SELECT * FROM '
                            'CIM_AlertIndication', 'WQL', owned=True,
                            filter_id='u'),
                        'add_sub': lambda: mgr.add_subscriptions(
                            sid, fp, [dp] if i % 2 else None, owned=True),
                        'rm_sub': lambda: mgr.remove_subscriptions(sid, fp),
                        'rm_filter': lambda: mgr.remove_filter(sid, fp),
                        'rm_dest': lambda: mgr.remove_destinations(sid, dp),
                        'remove_server': lambda: mgr.remove_server(sid)}
                    try:
                        calls[kind]()
                        res = 'returned'
                    except ValueError:
                        res = None
                    except Exception as e:  # pylint: disable=broad-except
                        res = type(e).__name__
                    if res is not None or w.nreq[m]:
                        viol('unregistered-server/%s/%s' % (
                            kind, res or 'request-sent'),
                             'step %d %s for a server that is not registered '
                             'with manager %r: %s, %d requests (documented: '
                             'ValueError)' % (i, kind, ids[m], res,
                                              w.nreq[m]))
                    continue
                elif kind == 'add_dest':
                    _, _, _, url, owned, ident, pt = st
                    owned_op = owned
                    name = ('pywbemdestination:%s:%s' % (ids[m], ident)) \
                        if owned else ident
                    exp_add = {('d', name)}
                    kw = {'destination_id': ident} if owned else \
                        {'name': ident}
                    inst = mgr.add_destination(sid, url, owned=owned,
                                               persistence_type=pt, **kw)
                    outcome = inst['Name']
                elif kind == 'add_filter':
                    _, _, _, owned, ident = st
                    owned_op = owned
                    name = ('pywbemfilter:%s:%s' % (ids[m], ident)) \
                        if owned else ident
                    exp_add = {('f', name)}
                    kw = {'filter_id': ident} if owned else {'name': ident}
                    inst = mgr.add_filter(
                        sid, 'root/cimv2',
                        'SELECT * FROM CIM_AlertIndication', 'WQL',
                        owned=owned, **kw)
                    outcome = inst['Name']
                elif kind == 'add_sub':
                    _, _, _, owned, fi, dis = st[:6]
                    cross = len(st) > 6 and st[6]
                    owned_op = owned
                    md, mf, _ms = w.owned(m, s)
                    perm_f = sorted(n for (k, n), o in w.owner[s].items()
                                    if k == 'f' and (o is None or (
                                        cross and o != m)))
                    perm_d = sorted(n for (k, n), o in w.owner[s].items()
                                    if k == 'd' and (o is None or (
                                        cross and o != m)))
                    if cross:
                        bump(probes, 'cross_manager_subscription_attempt')
                    fname = w.pick(fi, mf + perm_f)
                    if fname is None:
                        continue
                    fpath = w.path_of(s, 'f', fname)
                    if dis is None:
                        dnames = md
                        dpaths = None
                    else:
                        dnames = [w.pick(d, md + perm_d) for d in dis]
                        if None in dnames:
                            continue
                        dpaths = [w.path_of(s, 'd', n) for n in dnames]
                        if len(dpaths) == 1 and fi % 2:
                            dpaths = dpaths[0]
                    exp_add = {('s', fname, dn) for dn in dnames}
                    if not owned and dnames and (
                            fname in mf or any(dn in md for dn in dnames)):
                        outcome = 'expect-valueerror'
                    res = mgr.add_subscriptions(sid, fpath, dpaths,
                                                owned=owned)
                    if outcome == 'expect-valueerror':
                        viol('permanent-sub-on-owned-accepted',
                             'step %d %s: manager %r created a permanent '
                             'subscription on an owned filter/destination' %
                             (i, what, ids[m]))
                    outcome = len(res)
                elif kind == 'rm_sub':
                    _, _, _, si = st
                    _d, _f, ms = w.owned(m, s)
                    perm = sorted(k for k, o in w.subown[s].items()
                                  if o is None)
                    key = w.pick(si, ms + perm)
                    if key is None:
                        continue
                    exp_del = {('s',) + key}
                    mgr.remove_subscriptions(sid, hosty(w.sub_path(s, key)))
                elif kind == 'rm_filter':
                    _, _, _, fi = st
                    _d, mf, _s = w.owned(m, s)
                    perm = sorted(n for (k, n), o in w.owner[s].items()
                                  if k == 'f' and o is None)
                    fname = w.pick(fi, mf + perm)
                    if fname is None:
                        continue
                    exp_del = {('f', fname)}
                    referenced = any(k[0] == fname for k in w.subown[s])
                    if referenced:
                        outcome = 'expect-refused'
                        bump(probes, 'referenced_removal_attempted')
                    mgr.remove_filter(sid, hosty(w.path_of(s, 'f', fname)))
                    if outcome == 'expect-refused':
                        viol('referenced-filter-removed', 'step %d %s' %
                             (i, what))
                elif kind == 'rm_dest':
                    _, _, _, dis = st
                    md, _f, _s = w.owned(m, s)
                    perm = sorted(n for (k, n), o in w.owner[s].items()
                                  if k == 'd' and o is None)
                    dnames = [w.pick(d, md + perm) for d in dis]
                    if None in dnames:
                        continue
                    exp_del = {('d', n) for n in dnames}
                    if any(k[1] in dnames for k in w.subown[s]):
                        outcome = 'maybe-refused'
                        bump(probes, 'referenced_removal_attempted')
                    paths = [hosty(w.path_of(s, 'd', n)) for n in dnames]
                    mgr.remove_destinations(sid, paths if len(paths) > 1
                                            else paths[0])
                elif kind == 'remove_server':
                    involved[0] += 1
                    blocked = w.blocked(m, [s])
                    md, mf, ms = w.owned(m, s)
                    exp_del = {('d', n) for n in md} | \
                        {('f', n) for n in mf} | {('s',) + k for k in ms}
                    mgr.remove_server(sid)
                    w.reg[m].discard(s)
                    outcome = 'removed'
                elif kind in ('remove_all', 'exit'):
                    involved[0] += 1
                    blocked = w.blocked(m, sorted(w.reg[m]))
                    outcome = 'removed-all'
                    if kind == 'exit':
                        # the with-block is left normally, through a CIM
                        # error, or through another exception
                        how = (i + m) % 3
                        if how == 0:
                            mgr.__exit__(None, None, None)
                        else:
                            exc = CIMError(11, 'raised in the with-block') \
                                if how == 1 else KeyError('in the with-block')
                            bump(probes, 'exit_through_' + type(exc).__name__)
                            if mgr.__exit__(type(exc), exc, None):
                                viol('exit-swallows-exception',
                                     'step %d: __exit__ returned true for %r'
                                     % (i, exc))
                    else:
                        mgr.remove_all_servers()
                    regs = sorted(w.reg[m])
                    w.reg[m] = set()
            except SimCrash:
                crashed = True
                bump(faults, 'client_crash')
            except (CIMError, ValueError, TypeError) as e:
                outcome = 'exc:%s' % type(e).__name__
                if isinstance(e, CIMError):
                    outcome += ':%d' % e.status_code
            except Exception as e:  # pylint: disable=broad-except
                viol('undocumented-exception/' + type(e).__name__,
                     'step %d %s (manager %r): %r' % (i, what, ids[m], e))
                break
            finally:
                # a crash point beyond the last request of the operation is
                # void
                w.crash_at[m] = None
            trace.append((kind, str(outcome), crashed))
            # ------------------------------------------------- store diffs
            for s2 in range(len(w.servers)):
                after = w.store(s2)
                ea, ed = set(), set()
                if kind in ('remove_all', 'exit'):
                    if outcome == 'removed-all' or crashed or \
                            str(outcome).startswith('exc'):
                        md, mf, ms = w.owned(m, s2)
                        ed = {('d', n) for n in md} | {('f', n) for n in mf} \
                            | {('s',) + k for k in ms}
                elif s2 == s:
                    ea, ed = exp_add, exp_del
                added, removed = apply_diff(
                    s2, befores[s2], after, m, owned_op, ea, ed, i, what,
                    crashed)
                ok_exc = str(outcome).startswith('exc')
                if ok_exc and (added or removed) and kind not in (
                        'add_sub', 'rm_dest', 'remove_server', 'remove_all',
                        'exit'):
                    viol('failed-operation-changed-store',
                         'step %d %s raised (%s) but the store changed: +%s '
                         '-%s' % (i, what, outcome, sorted(added),
                                  sorted(removed)))
                if kind in ('remove_server', 'remove_all', 'exit') and \
                        not crashed and not ok_exc and ed - removed:
                    viol('owned-instances-left-behind',
                         'step %d %s (manager %r): owned instances %s were '
                         'not deleted' % (i, what, ids[m],
                                          sorted(ed - removed)))
                if kind in ('remove_server', 'remove_all', 'exit') and \
                        ok_exc and not crashed and blocked:
                    # an owned filter / destination is referenced by the
                    # subscription of another manager: it cannot be removed
                    bump(probes, 'remove_server_blocked_by_foreign_sub')
                    # servers that were handled before the failing one are
                    # not registered any more
                    for s3 in sorted(w.reg[m]):
                        try:
                            mgr.get_owned_filters(SVR_URLS[s3])
                        except ValueError:
                            w.reg[m].discard(s3)
                        except Exception:  # pylint: disable=broad-except
                            pass
                elif kind in ('remove_server', 'remove_all', 'exit') and \
                        ok_exc and not crashed:
                    viol('remove-server-failed',
                         'step %d %s (manager %r) raised %s; left behind %s' %
                         (i, what, ids[m], outcome, sorted(ed - removed)))
            if V:
                break
            if crashed:
                # the client process is gone: only server state survives
                w.mgrs[m] = None
                regs = sorted(w.reg[m])
                w.new_mgr(m)
                for s2 in regs:
                    try:
                        w.mgrs[m].add_server(WBEMServer(w.conn(m, s2)))
                        w.reg[m].add(s2)
                    except Exception as e:  # pylint: disable=broad-except
                        viol('add-server-raised/' + type(e).__name__,
                             'recovery of %r after crash at step %d: %r' %
                             (ids[m], i, e))
                # rediscovery rule for subscriptions (see restart)
                for s2 in regs:
                    for key, o in list(w.subown[s2].items()):
                        ends = (w.owner[s2].get(('f', key[0])) == m or
                                w.owner[s2].get(('d', key[1])) == m)
                        if o == m and not ends:
                            w.subown[s2][key] = None
                involved[0] += 1
                if not check_lists(i, 'recovery after crash in ' + what):
                    break
                continue
            if kind == 'add_server':
                # an add_server on a populated server is a discovery
                pass
            if not check_lists(i, what):
                break
    finally:
        sm.getfqdn = saved_fqdn
    seen = set()
    out = []
    for v in V:
        if v['sig'] not in seen:
            seen.add(v['sig'])
            out.append(v)
    return {'violations': out, 'fingerprint': digest(trace),
            'nontrivial': created[0] >= 2 and
            (involved[0] >= 1 or len(plan['mgr_ids']) > 1),
            'probes': probes, 'faults': faults, 'sim_seconds': 0.0,
            'steps': len(plan['steps'])}


def sample(plan, res):
    return {'mgr_ids': plan['mgr_ids'], 'nservers': plan['nservers'],
            'steps': plan['steps'][:14], 'n_steps': len(plan['steps'])}


def shrink_candidates(plan):
    n = len(plan['steps'])
    for i in range(n - 1, -1, -1):
        p = copy.deepcopy(plan)
        del p['steps'][i]
        yield p
    if plan['nservers'] > 1:
        p = copy.deepcopy(plan)
        p['nservers'] = 1
        p['steps'] = [s for s in p['steps']
                      if not (len(s) > 2 and isinstance(s[2], int) and
                              s[0] not in ('remove_all', 'exit', 'crash_next')
                              and s[2] >= 1)]
        yield p
