"""C04 - operations over HTTP/CIM-XML equal the same operations done
directly.  Differential execution of generated operation programs on two
replicas of one generated repository: path W = real WBEMConnection -> real
requests/urllib3/http.client -> simulated socket -> simulated WBEM server
(real pywbem parser + pywbem_mock providers, stub envelope); path D =
FakedWBEMConnection (no XML)."""
import re
import copy
import uuid
import random

import pywbem
from pywbem import (CIMInstance, CIMInstanceName, CIMClass, CIMClassName,
                    CIMQualifierDeclaration, CIMError)

from simkit import modelgen as mg, opgen, wire, wbemserver
from simkit.prng import stream, digest

ID = 'C04'
LEVEL = 'exploration'
TIERS = {'quick': {'runs': 4800, 'budget_s': 50, 'models': 48},
         'thorough': {'runs': 10 ** 9, 'budget_s': 600, 'models': 2000}}
RUN_WALL = 120
RULE = ('each run = one generated repository (1-3 namespaces, class tree with '
        'properties of all CIM types, methods with an echo provider, '
        'association classes, instances) replicated twice, a connection '
        'default namespace, and a program of 4-20 operations drawn from all '
        'public WBEMConnection operation methods with valid and invalid '
        'arguments, executed operation by operation on path W (wire) and '
        'path D (direct); non-trivial = at least 3 operations reached the '
        'server and returned objects; distinct = digest of the sequence of '
        '(operation, outcome class) pairs and decoded requests')
COMPONENTS = {
    'real': ['WBEMConnection operation methods, _iparam_*, _imethodcall, '
             '_methodcall, _cim_http.wbem_request', 'requests, urllib3, '
             'http.client', 'pywbem _tupletree/_tupleparse server-side '
             'parsers (parse_imethodcall, parse_methodcall, '
             'parse_iparamvalue)', 'pywbem_mock providers and repository '
             '(both replicas)', '_cim_xml/tocimxml encoders'],
    'stub': ['simulated socket (urllib3 create_connection seam)',
             'SimWBEMServer envelope: HTTP framing, IPARAMVALUE typing table, '
             'response element choice, CIMError->ERROR mapping',
             'uuid4 -> seeded ids']}
ASSUMPTIONS = [
    'normalisations: (n1) attributes None on path D equal the DSP0201 default '
    'of an omitted attribute on path W (propagated False, tosubclass/'
    'overridable True, translatable/toinstance False); (n2) where DSP0201 '
    'requires HOST the server stub supplies its own host; nothing else',
    'the response element per operation follows DSP0200']

URL = 'http://FakedUrl:5988'


def gen_plan(run_seed, tier, index):
    r = stream(run_seed, 'plan')
    nmodels = TIERS[tier]['models']
    mseed = r.randrange(nmodels)
    model = mg.gen_model(mseed, allow_cr=True)
    dn = r.choice([None, None] + model['namespaces'] + ['ROOT/CIMV2'])
    n = r.randint(4, 20)
    ops = opgen.gen_program(stream(run_seed, 'ops'), model,
                            dn or 'root/cimv2', n, switch_default_ns=True)
    r2 = stream(run_seed, 'seq')
    # sequences: the same operation with the same argument objects again
    if r2.random() < 0.4:
        for _ in range(r2.randint(1, 3)):
            cands = [i for i, o in enumerate(ops)
                     if o['op'] in ('ModifyInstance', 'GetInstance',
                                    'CreateInstance', 'DeleteInstance',
                                    'EnumerateInstances', 'InvokeMethod',
                                    'ModifyClass', 'CreateClass',
                                    'Associators', 'References')]
            if not cands:
                break
            i = r2.choice(cands)
            ops.insert(r2.randint(i + 1, len(ops)), copy.deepcopy(ops[i]))
    plan = {'check': ID, 'model_seed': mseed, 'default_ns': dn, 'ops': ops,
            'ids_seed': stream(run_seed, 'ids').getrandbits(32),
            'reuse_args': r2.random() < 0.5}
    # fault configuration (separate from the fault-free one): the reply to
    # one request is lost after the server has executed it
    if r2.random() < 0.25:
        cands = [i for i, o in enumerate(ops)
                 if o['op'] not in ('Iter', '$set_default_namespace') and
                 not o['op'].startswith('Iter')]
        if cands:
            plan['lost_reply'] = {'op': r2.choice(cands),
                                  'how': r2.choice(['reset', 'partial',
                                                    'timeout', 'eof'])}
    return plan


# ---------------------------------------------------------- normalisation
def norm_qualifier(q):
    if q.propagated is None:
        q.propagated = False
    if q.tosubclass is None:
        q.tosubclass = True
    if q.overridable is None:
        q.overridable = True
    if q.translatable is None:
        q.translatable = False
    if q.toinstance is None:
        q.toinstance = False


def norm_quals(qd):
    for q in qd.values():
        norm_qualifier(q)


def norm_value(v, host):
    if isinstance(v, list):
        for x in v:
            norm_value(x, host)
    elif isinstance(v, (CIMInstance, CIMClass)):
        norm(v, host, embedded=True)
    # reference values (CIMInstanceName) keep their own host


def norm(o, host, embedded=False):
    """In-place normalisation n1/n2 of a result object."""
    if isinstance(o, (list, tuple)):
        for x in o:
            norm(x, host)
        return o
    if isinstance(o, CIMInstanceName):
        return o
    if isinstance(o, CIMInstance):
        for p in o.properties.values():
            if p.propagated is None:
                p.propagated = False
            norm_quals(p.qualifiers)
            norm_value(p.value, host)
        norm_quals(o.qualifiers)
        return o
    if isinstance(o, CIMClass):
        for p in o.properties.values():
            if p.propagated is None:
                p.propagated = False
            norm_quals(p.qualifiers)
            norm_value(p.value, host)
        for m in o.methods.values():
            if m.propagated is None:
                m.propagated = False
            norm_quals(m.qualifiers)
            for q in m.parameters.values():
                norm_quals(q.qualifiers)
        norm_quals(o.qualifiers)
        return o
    if isinstance(o, CIMQualifierDeclaration):
        # n3: the SCOPE element has no ANY attribute and omits false scopes:
        # ANY=True is the same as all seven scopes True
        sc = o.scopes
        if sc.get('ANY'):
            for k in ('CLASS', 'ASSOCIATION', 'INDICATION', 'PROPERTY',
                      'REFERENCE', 'METHOD', 'PARAMETER'):
                sc[k] = True
        o.scopes = {k: True for k in sc if sc[k] and k.upper() != 'ANY'}
        if o.tosubclass is None:
            o.tosubclass = True
        if o.overridable is None:
            o.overridable = True
        if o.translatable is None:
            o.translatable = False
        if o.toinstance is None:
            o.toinstance = False
        return o
    return o


def path_host(p, host):
    if p is not None and p.host is None:
        p.host = host


HOSTED_INST = {'Associators', 'References', 'OpenEnumerateInstances',
               'OpenAssociatorInstances', 'OpenReferenceInstances',
               'PullInstancesWithPath', 'IterEnumerateInstances',
               'IterAssociatorInstances', 'IterReferenceInstances'}
HOSTED_PATH = {'AssociatorNames', 'ReferenceNames',
               'OpenEnumerateInstancePaths', 'OpenAssociatorInstancePaths',
               'OpenReferenceInstancePaths', 'PullInstancePaths',
               'IterEnumerateInstancePaths', 'IterAssociatorInstancePaths',
               'IterReferenceInstancePaths'}


def apply_host(op, val, host):
    """n2: where the wire format requires a HOST element, a path without
    host on path D equals the same path with the server's host."""
    items = None
    if hasattr(val, 'eos'):
        items = getattr(val, 'instances', None) or \
            getattr(val, 'paths', None) or []
    elif isinstance(val, list):
        items = val
    if items is None:
        return
    for x in items:
        if op in HOSTED_INST and isinstance(x, CIMInstance):
            path_host(x.path, host)
        elif op in HOSTED_PATH and isinstance(x, CIMInstanceName):
            path_host(x, host)
        elif op in HOSTED_PATH and isinstance(x, CIMClassName):
            path_host(x, host)
        elif isinstance(x, tuple) and len(x) == 2 and \
                isinstance(x[0], CIMClassName):
            path_host(x[0], host)
            if isinstance(x[1], CIMClass) and x[1].path is not None:
                path_host(x[1].path, host)


QUERY_OPS = ('OpenQueryInstances', 'PullInstances', 'IterQueryInstances')


def _strip_paths(v):
    """n4: query results are not addressable instances.  They travel as
    INSTANCE elements without path; what the direct path returns depends on
    the query engine plugged into the mock (here a stub), so the paths of
    query results are not compared."""
    if isinstance(v, CIMInstance):
        v.path = None
    elif isinstance(v, (list, tuple)):
        for x in v:
            _strip_paths(x)
    elif hasattr(v, 'instances'):
        _strip_paths(v.instances)


def comparable(op, val, host):
    """Normalised deep copy of an operation result, context ids removed."""
    v = copy.deepcopy(val)
    if op in QUERY_OPS:
        _strip_paths(v)
    ctx = None
    if hasattr(v, 'eos') and hasattr(v, 'context'):
        ctx = v.context
        fields = v._asdict()
        fields['context'] = None if ctx is None else ('CTX', ctx[1])
        items = {k: x for k, x in fields.items()}
        apply_host(op, v, host)
        norm(list(x for x in items.values() if isinstance(x, list)), host)
        return ('pull', sorted(items.items(), key=lambda kv: kv[0]))
    apply_host(op, v, host)
    norm(v, host)
    return v


def outcome(op, res, host):
    kind, val = res
    if kind == 'ok':
        return ('ok', comparable(op, val, host))
    e = val
    if isinstance(e, CIMError):
        return ('cimerror', e.status_code)
    return ('exc', type(e).__name__)


def _safe_copy(x):
    """Deep copy that tolerates tz-aware datetimes whose tzinfo cannot be
    deep-copied (pywbem's MinutesFromUTC): those are immutable anyway."""
    import datetime as _dt
    if isinstance(x, (_dt.datetime, _dt.timedelta)):
        return x
    if isinstance(x, list):
        return [_safe_copy(y) for y in x]
    if isinstance(x, tuple):
        return tuple(_safe_copy(y) for y in x)
    if isinstance(x, dict):
        return {k: _safe_copy(v) for k, v in x.items()}
    return copy.deepcopy(x)


def _as_cim(v):
    """Python datetime/timedelta values are CIM datetimes."""
    import datetime as _dt
    if isinstance(v, (_dt.datetime, _dt.timedelta)):
        return pywbem.CIMDateTime(v)
    if isinstance(v, list):
        return [_as_cim(x) for x in v]
    return v


def clean_params(params):
    out = {}
    for k, v in params.items():
        if v is None or k in ('has_out_params', 'has_return_value'):
            continue
        out[k] = v
    return out


class _Ids:
    def __init__(self, seed):
        self.r = random.Random(seed)

    def __call__(self):
        return uuid.UUID(int=self.r.getrandbits(128), version=4)


class _Lossy:
    """The simulated server behind a transport that loses the reply to one
    request after the server has executed it."""

    def __init__(self, inner, how):
        self.inner = inner
        self.how = how
        self.armed = False
        self.fired = False

    def __getattr__(self, name):
        return getattr(self.inner, name)

    def __call__(self, raw, idx):
        acts = self.inner(raw, idx)
        if not self.armed:
            return acts
        self.armed = False
        self.fired = True
        data = b''.join(a for a in acts if isinstance(a, bytes))
        if self.how == 'reset':
            return ['RESET']
        if self.how == 'partial':
            return [data[:max(1, len(data) // 2)], 'RESET']
        if self.how == 'eof':
            return [data[:max(1, len(data) // 3)]]
        return ['TIMEOUT']


def execute(plan):
    model = mg.gen_model(plan['model_seed'], allow_cr=True)
    dn = plan['default_ns']
    kw = {} if dn is None else {'default_namespace': dn}
    saved_uuid4 = uuid.uuid4
    uuid.uuid4 = _Ids(plan['ids_seed'])
    V = []
    probes = {}
    trace = []

    def viol(sig, msg):
        V.append({'sig': 'C04/' + sig, 'msg': msg})

    def bump(k, n=1):
        probes[k] = probes.get(k, 0) + n

    try:
        conn_d = mg.fresh_conn(model, **kw)
        opgen.register_echo(conn_d, model)
        conn_s = mg.fresh_conn(model)
        # the same stub query engine on both replicas
        mg.enable_query(conn_s)
        mg.enable_query(conn_d)
        opgen.register_echo(conn_s, model)
        server = wbemserver.SimWBEMServer(conn_s)
        lossy = _Lossy(server, (plan.get('lost_reply') or {}).get('how'))
        cache_w = {} if plan.get('reuse_args') else None
        cache_d = {} if plan.get('reuse_args') else None
        faults = {}
        # record what path D hands to _imethodcall/_methodcall
        d_calls = []
        orig_i, orig_m = conn_d._imethodcall, conn_d._methodcall

        def rec_i(methodname, namespace, response_params_rqd=None, **params):
            d_calls.append(('imethod', methodname, namespace,
                            clean_params(copy.deepcopy(params))))
            return orig_i(methodname, namespace, **params)

        def rec_m(methodname, objectname, Params=None, **params):
            d_calls.append(('method', methodname, copy.deepcopy(objectname),
                            _safe_copy(Params), _safe_copy(params)))
            return orig_m(methodname, objectname, Params, **params)
        conn_d._imethodcall = rec_i
        conn_d._methodcall = rec_m
        net = wire.Net(lossy).install()
        try:
            conn_w = pywbem.WBEMConnection(URL, **kw)
            host = conn_w.host
            res_w, res_d = [], []
            reached = 0
            for i, op in enumerate(plan['ops']):
                nseen0, nd0 = len(server.seen), len(d_calls)
                lost = (plan.get('lost_reply') or {}).get('op') == i
                lossy.armed = lost
                lossy.fired = False
                rw = opgen.call(conn_w, op, res_w, cache_w)
                lossy.armed = False
                rd = opgen.call(conn_d, op, res_d, cache_d)
                res_w.append(rw)
                res_d.append(rd)
                name = op['op']
                ow = outcome(name, rw, host)
                od = outcome(name, rd, host)
                seen = server.seen[nseen0:]
                dcs = d_calls[nd0:]
                if seen:
                    reached += 1
                if lossy.fired:
                    # the server executed the request, the reply was lost:
                    # the caller must be told, and the request must not be
                    # sent again behind its back
                    faults['lost_reply_' + lossy.how] = 1
                    if not (ow[0] == 'exc' and ow[1] in (
                            'ConnectionError', 'TimeoutError')):
                        viol('lost-reply-not-reported/%s' % name,
                             'op #%d %s: the reply was lost (%s) but the '
                             'call returned %s' % (i, name, lossy.how,
                                                   _short(rw)))
                    elif len(seen) != len(dcs):
                        viol('request-count-differs/%s/after-lost-reply' %
                             name, 'op #%d %s: the reply was lost (%s); '
                             'the server saw %d requests, the direct path '
                             'issued %d' % (i, name, lossy.how, len(seen),
                                            len(dcs)))
                    else:
                        for sw, dc in zip(seen, dcs):
                            msg = compare_request(sw, dc, conn_d, True)
                            if msg:
                                viol('request-differs/%s' % name,
                                     'op #%d %s %r: %s' % (i, name, op, msg))
                    trace.append((name, 'lost', lossy.how, len(seen)))
                    break
                # a non-CIM exception inside the provider stack surfaces as
                # HTTP 500 on path W and as that exception on path D
                if ow == ('exc', 'HTTPError') and seen and \
                        str(seen[-1].get('outcome', '')).startswith(
                            'internal:'):
                    ow = ('exc', seen[-1]['outcome'].split(':', 1)[1])
                    bump('server_internal_exception')
                trace.append((name, ow[0], ow[1] if ow[0] != 'ok' else '',
                              len(seen)))
                bump('op_' + name)
                if ow[0] != od[0] or (ow[0] != 'ok' and ow[1] != od[1]):
                    viol('outcome-differs/%s/%s-vs-%s' % (
                        name, ow[1] if ow[0] != 'ok' else 'ok',
                        od[1] if od[0] != 'ok' else 'ok'),
                        'op #%d %s: wire -> %s, direct -> %s; server '
                        'internal errors: %s; op=%r' %
                        (i, name, _short(rw), _short(rd),
                         server.internal_errors[-1:], op))
                    break
                if ow[0] == 'ok':
                    try:
                        same = (ow[1] == od[1])
                    except Exception as e:  # pylint: disable=broad-except
                        same = False
                        viol('compare-raised/%s' % type(e).__name__, str(e))
                    if not same and cr_only(ow[1], od[1]):
                        viol('cr-normalised-to-lf',
                             'op #%d %s: a string value containing CR '
                             'arrives with LF over the wire: %s' %
                             (i, name, first_diff(ow[1], od[1])))
                        break
                    if not same:
                        fd = first_diff(ow[1], od[1]) or '?'
                        loc = re.sub(r"\[[^\]]*\]", '[]',
                                     fd.split(':', 1)[0])
                        viol('result-differs/%s/%s' % (name, loc),
                             'op #%d %s %r:\n first difference (wire vs '
                             'direct): %s\n wire  : %s\n direct: %s' %
                             (i, name, op, fd,
                              _short(ow[1], 700), _short(od[1], 700)))
                        break
                    if ow[1] is not None and not (
                            isinstance(ow[1], (list, tuple)) and
                            len(ow[1]) == 0):
                        bump('ops_returning_objects')
                elif ow[0] == 'cimerror':
                    bump('cimerror_%s' % ow[1])
                else:
                    bump('exc_' + ow[1])
                # request equality
                if len(seen) != len(dcs):
                    viol('request-count-differs/%s' % name,
                         'op #%d %s: server saw %d requests, direct path '
                         'issued %d' % (i, name, len(seen), len(dcs)))
                    break
                for sw, dc in zip(seen, dcs):
                    msg = compare_request(sw, dc, conn_d)
                    if msg and \
                            compare_request(sw, dc, conn_d, True) is None:
                        viol('cr-normalised-to-lf',
                             'op #%d %s: a string value containing CR '
                             'reaches the server with LF: %s' %
                             (i, name, msg[:300]))
                        break
                    if msg:
                        viol('request-differs/%s' % name,
                             'op #%d %s %r: %s' % (i, name, op, msg))
                        break
            if not V:
                dw = mg.dump_repo(conn_s, lambda o: norm(o, None))
                dd = mg.dump_repo(conn_d, lambda o: norm(o, None))
                if dw != dd:
                    a = [x for x in dw if x not in dd][:1]
                    b = [x for x in dd if x not in dw][:1]
                    where = ''
                    if a and b and a[0][:2] == b[0][:2]:
                        sa, sb = a[0][2], b[0][2]
                        k = 0
                        while k < min(len(sa), len(sb)) and sa[k] == sb[k]:
                            k += 1
                        where = ' first difference at char %d: wire %r / ' \
                            'direct %r' % (k, sa[max(0, k - 60):k + 80],
                                           sb[max(0, k - 60):k + 80])
                    crsig = 'repository-differs'
                    if len(dw) == len(dd) and all(
                            x == y or (x[:2] == y[:2] and
                                       str(x[2]).replace('\r', '\n') ==
                                       str(y[2]).replace('\r', '\n'))
                            for x, y in zip(dw, dd)):
                        # the open known finding, seen in the stored data
                        crsig = 'cr-normalised-to-lf'
                    viol(crsig,
                         'after the program the replicas differ:%s only-wire='
                         '%s only-direct=%s' % (where, _short(a, 600),
                                                _short(b, 600)))
                if len(conn_s._mainprovider.enumeration_contexts) != \
                        len(conn_d._mainprovider.enumeration_contexts):
                    viol('context-table-differs', 'open contexts W=%d D=%d' % (
                        len(conn_s._mainprovider.enumeration_contexts),
                        len(conn_d._mainprovider.enumeration_contexts)))
        finally:
            net.uninstall()
    finally:
        uuid.uuid4 = saved_uuid4
    if dn is not None:
        bump('default_namespace_given')
    nontrivial = reached >= 3 and probes.get('ops_returning_objects', 0) >= 1
    return {'violations': V[:1], 'fingerprint': digest(trace),
            'nontrivial': nontrivial, 'probes': probes, 'faults': faults,
            'sim_seconds': 0.0, 'steps': len(plan['ops'])}


def _cr_to_lf(o):
    """Replace CR LF and CR by LF in every string of a result (in place)."""
    if isinstance(o, (list, tuple)):
        for x in o:
            _cr_to_lf(x)
    elif isinstance(o, (CIMInstance, CIMClass)):
        for p in o.properties.values():
            v = p.value
            if isinstance(v, str):
                p.value = v.replace('\r\n', '\n').replace('\r', '\n')
            elif isinstance(v, list):
                p.value = [x.replace('\r\n', '\n').replace('\r', '\n')
                           if isinstance(x, str) else x for x in v]
                _cr_to_lf([x for x in v if isinstance(x, CIMInstance)])
            elif isinstance(v, CIMInstance):
                _cr_to_lf(v)


def cr_only(a, b):
    """True if a and b differ only by XML line-end normalisation."""
    try:
        a2, b2 = copy.deepcopy(a), copy.deepcopy(b)
        for x in (a2, b2):
            if isinstance(x, tuple) and len(x) == 2 and x[0] == 'pull':
                for _k, v in x[1]:
                    _cr_to_lf(v)
            else:
                _cr_to_lf(x)
        return a2 == b2
    except Exception:  # pylint: disable=broad-except
        return False


def first_diff(a, b, path='result'):
    """Locate the first differing attribute of two results (for messages)."""
    try:
        if type(a) is not type(b):
            return '%s: type %s vs %s' % (path, type(a).__name__,
                                          type(b).__name__)
        if isinstance(a, (list, tuple)):
            if len(a) != len(b):
                return '%s: length %d vs %d' % (path, len(a), len(b))
            for i, (x, y) in enumerate(zip(a, b)):
                if not _eq(x, y):
                    return first_diff(x, y, '%s[%d]' % (path, i))
            return None
        if hasattr(a, 'keys') and hasattr(a, 'values'):
            ka, kb = sorted(k.lower() for k in a.keys()), \
                sorted(k.lower() for k in b.keys())
            if ka != kb:
                return '%s: keys %s vs %s' % (path, ka, kb)
            for k in a.keys():
                if not _eq(a[k], b[k]):
                    return first_diff(a[k], b[k], '%s[%r]' % (path, k))
            return None
        slots = []
        for klass in type(a).__mro__:
            slots.extend(getattr(klass, '__slots__', ()))
        for sl in slots:
            n = sl.lstrip('_')
            if hasattr(a, n):
                x, y = getattr(a, n), getattr(b, n)
                if not _eq(x, y):
                    return first_diff(x, y, '%s.%s' % (path, n))
    except Exception as e:  # pylint: disable=broad-except
        return '%s: (diff failed: %r)' % (path, e)
    return '%s: %s vs %s' % (path, _short(a, 200), _short(b, 200))


def _eq(x, y):
    try:
        return type(x) is type(y) and x == y
    except TypeError:
        return x is y


def _short(x, n=400):
    s = repr(x)
    return s if len(s) <= n else s[:n] + '...[%d chars]' % len(s)


def compare_request(sw, dc, conn_d, cr_blind=False):
    """Decoded request on path W vs. the call handed over on path D."""
    if dc[0] == 'imethod':
        _, name, ns, params = dc
        if sw['kind'] != 'imethod':
            return 'server decoded %s, direct path imethod' % sw['kind']
        if sw['name'] != name:
            return 'method name %r vs %r' % (sw['name'], name)
        if sw['ns'] != ns:
            return 'namespace %r vs %r' % (sw['ns'], ns)
        pw = clean_params(sw['params'])
        if set(pw) != set(params):
            return 'parameter names %s vs %s' % (sorted(pw), sorted(params))
        for k in pw:
            a, b = pw[k], params[k]
            if k == 'EnumerationContext':
                continue    # ids are drawn independently on the two replicas
            if isinstance(b, (CIMInstance, CIMClass, CIMQualifierDeclaration)):
                a, b = copy.deepcopy(a), copy.deepcopy(b)
                norm(a, None)
                norm(b, None)
            if isinstance(b, tuple):
                b = list(b)
            if cr_blind:
                a, b = copy.deepcopy(a), copy.deepcopy(b)
                _cr_to_lf(a)
                _cr_to_lf(b)
            if isinstance(b, bool) != isinstance(a, bool) or a != b:
                return 'parameter %s: server decoded %s, caller supplied %s' \
                    % (k, _short(a), _short(b))
        return None
    _, name, objectname, Params, params = dc
    if sw['kind'] != 'method':
        return 'server decoded %s, direct path method' % sw['kind']
    if sw['name'] != name:
        return 'method name %r vs %r' % (sw['name'], name)
    # target object: default namespace applied, host removed
    if isinstance(objectname, str):
        exp = CIMClassName(objectname, namespace=conn_d.default_namespace)
    else:
        exp = objectname.copy()
        if exp.namespace is None:
            exp.namespace = conn_d.default_namespace
        exp.host = None
    if sw['path'] != exp or sw['path'].namespace != exp.namespace:
        return 'target %r vs %r' % (sw['path'], exp)
    sup = []
    for p in (Params or []):
        if isinstance(p, tuple):
            sup.append((p[0], p[1]))
        else:
            sup.append((p.name, p.value))
    sup += list(params.items())
    dec = [(n, v) for n, _t, v in sw['params']]
    if [n for n, _ in dec] != [n for n, _ in sup]:
        return 'method parameter names %s vs %s' % (
            [n for n, _ in dec], [n for n, _ in sup])
    for (n, a), (_, b) in zip(dec, sup):
        b = _as_cim(b)
        if b is None:
            if a is not None:
                return 'method parameter %s: %r vs None' % (n, a)
            continue
        if a != b or type(a) is not type(b) and not (
                isinstance(a, list) and isinstance(b, list)):
            if a == b and isinstance(a, str) and isinstance(b, str):
                continue
            if isinstance(b, list) and isinstance(a, list) and \
                    (not b or b[0] is None) and len(a) == len(b) and \
                    all(x is None and y is None or
                        (isinstance(x, str) and not hasattr(x, 'cimtype') and
                         y is not None and (
                             str(x) == str(y) or
                             (isinstance(y, bool) and
                              x.lower() == str(y).lower())))
                        for x, y in zip(a, b)):
                # an array that starts with NULL travels without type; the
                # server could not type it (its class or method does not
                # exist): the untyped strings are compared
                continue
            return 'method parameter %s: server decoded %s (%s), caller ' \
                'supplied %s (%s)' % (n, _short(a), type(a).__name__,
                                      _short(b), type(b).__name__)
    return None


def sample(plan, res):
    return {'model_seed': plan['model_seed'], 'default_ns': plan['default_ns'],
            'ops': plan['ops'][:6], 'n_ops': len(plan['ops'])}


def shrink_candidates(plan):
    n = len(plan['ops'])
    # drop trailing ops first (violations stop the run), then single ops
    for k in range(n - 1, 0, -1):
        p = copy.deepcopy(plan)
        p['ops'] = p['ops'][:k]
        yield p
    for i in range(n - 1, -1, -1):
        p = copy.deepcopy(plan)
        del p['ops'][i]
        # keep $ctx references meaningful
        for o in p['ops']:
            for a in o.get('p', []):
                if isinstance(a, dict) and '$ctx' in a and a['$ctx'] >= i:
                    a['$ctx'] = a['$ctx'] - 1 if a['$ctx'] > i else -1
        yield p
    for i, o in enumerate(plan['ops']):
        for k in list(o.get('a', {})):
            if k in ('ClassName', 'InstanceName', 'ObjectName', 'NewInstance',
                     'ModifiedInstance', 'NewClass', 'ModifiedClass',
                     'QualifierDeclaration', 'QualifierName',
                     'FilterQueryLanguage', 'FilterQuery', 'QueryLanguage',
                     'Query'):
                continue
            p = copy.deepcopy(plan)
            del p['ops'][i]['a'][k]
            yield p
    if plan['default_ns'] is not None:
        p = copy.deepcopy(plan)
        p['default_ns'] = None
        yield p
