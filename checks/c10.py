"""C10 - the mock server's instance store is a faithful keyed map with CIM
status codes.  Model-based multi-client histories of instance operations
with collision-biased arguments and client-side aliasing faults."""
import copy

import pywbem
from pywbem import CIMError, CIMInstance, CIMInstanceName, CIMClass

from simkit import modelgen as mg, store
from simkit.prng import stream, digest

ID = 'C10'
LEVEL = 'exploration'
TIERS = {'quick': {'runs': 6400, 'budget_s': 60, 'models': 64},
         'thorough': {'runs': 10 ** 9, 'budget_s': 600, 'models': 4000}}
RUN_WALL = 120
RULE = ('each run = generated schema (1-3 namespaces, class trees of depth '
        '<= 3, key and non-key properties of all types incl. embedded '
        'instances / objects of the declared, a derived, an unrelated or an '
        'undeclared class, properties with Key(false)) and a history of '
        '5-40 CreateInstance/ModifyInstance/DeleteInstance/GetInstance/'
        'EnumerateInstances/EnumerateInstanceNames calls issued by 1-3 '
        'connections sharing the repository, with arguments biased towards '
        'collisions (existing, deleted, duplicate, differently-cased, '
        'key-reordered paths, partial instances, PropertyList subsets, wrong '
        'types, unknown classes/namespaces); after every call every passed '
        'and returned object is mutated in place (aliasing fault); the '
        'reference model is a dict keyed by (namespace, class, keybindings); '
        'non-trivial = >= 3 state-changing calls succeeded and >= 1 error '
        'status was produced; distinct = digest of (operation, outcome) '
        'sequence')
COMPONENTS = {
    'real': ['FakedWBEMConnection public operations', 'ProviderDispatcher '
             'validations', 'InstanceWriteProvider', 'MainProvider read '
             'operations', 'InMemoryRepository / InMemoryObjectStore'],
    'stub': ['nothing; client-side aliasing mutator; reference dict model']}
ASSUMPTIONS = [
    'only what the documentation fixes is compared: key -> existence, '
    'explicitly written property values, PropertyList filtering, subtree '
    'membership; extra NULL-valued properties in results are tolerated',
    'when several rejection reasons apply to one call, any of the documented '
    'status codes is accepted']


def pvalue(rr, p, null_p, cmap, plain):
    """Value spec for the property p; embedded-instance / embedded-object
    properties get instances of the declared class, of a subclass, of an
    unrelated or an undeclared class, or (EmbeddedObject) a class."""
    if not p.get('emb'):
        return mg.gen_value(rr, p['type'], p.get('array', False), null_p)

    def one(valid_only):
        k = rr.random()
        if p['emb'] == 'instance':
            subs = [c['name'] for c in plain
                    if mg.is_subclass(cmap, c['name'], p['embcls'])]
            if valid_only or k < 0.7:
                return mg.gen_embedded(rr, cmap, rr.choice(subs))
            if k < 0.85:
                return mg.gen_embedded(rr, cmap, rr.choice(plain)['name'])
            return mg.gen_embedded(rr, cmap, p['embcls'], unknown=True)
        if valid_only or k < 0.6:
            return mg.gen_embedded(rr, cmap, rr.choice(plain)['name'])
        if k < 0.8:
            return mg.gen_embedded(rr, cmap, rr.choice(plain)['name'],
                                   unknown=True)
        return {'$embcls': copy.deepcopy(rr.choice(plain))}
    if p.get('array'):
        if rr.random() < null_p:
            return {'t': 'string', 'a': None}
        return {'t': 'string',
                'a': [one(True) for _ in range(rr.choice([0, 1, 2]))]}
    if rr.random() < null_p:
        return {'t': 'string', 'v': None}
    return {'t': 'string', 'v': one(False)}


def gen_plan(run_seed, tier, index):
    r = stream(run_seed, 'plan')
    mseed = 300000 + r.randrange(TIERS[tier]['models'])
    model = mg.gen_model(mseed, with_methods=False, extras=True)
    cmap = {c['name']: c for c in model['classes']}
    plain = [c for c in model['classes'] if not c['assoc']]
    nconn = r.choice([1, 1, 2, 3])
    steps = []
    fresh = [0]

    def ns():
        k = r.random()
        if k < 0.35:
            return None
        if k < 0.9:
            n = r.choice(model['namespaces'])
            return r.choice([n, n, n.upper(), '/' + n])
        return r.choice(['no/such', 'root'])

    def cname():
        if r.random() < 0.07:
            return r.choice(['NoSuch', 'C0x'])
        n = r.choice(plain)['name']
        return r.choice([n, n, n, n.lower(), n.upper()])

    def proplist(c=None):
        k = r.random()
        if k < 0.55:
            return None
        if k < 0.65:
            return []
        pool = [p['name'] for p in (mg.all_props(cmap, c['name']) if c else
                                    [p for cc in plain for p in cc['props']])]
        if not pool:
            return None
        out = [r.choice([n, n.lower(), n.upper()])
               for n in r.sample(pool, min(len(pool), r.randint(1, 3)))]
        if r.random() < 0.1:
            out.append('NoSuchProp')
        if r.random() < 0.1:
            out.append(out[0])
        return out

    def new_props(c, partial=True):
        props = {}
        for p in mg.all_props(cmap, c['name']):
            if p['key']:
                v = mg.gen_value(r, p['type'], False, 0.0)
                if p['type'] == 'string':
                    fresh[0] += 1
                    v['v'] = r.choice(['k%d' % fresh[0], 'K%d' % fresh[0],
                                       'k', 'K', ''])
                elif p['type'] in mg.INT_TYPES:
                    v['v'] = r.choice([0, 1, 1, 2, 7])
                props[r.choice([p['name'], p['name'].lower(),
                                p['name'].upper()])] = v
            elif not partial or r.random() < 0.6:
                props[r.choice([p['name'], p['name'].lower()])] = \
                    pvalue(r, p, 0.2, cmap, plain)
        return props

    n = r.randint(5, 40)
    for _ in range(n):
        ci = r.randrange(nconn)
        k = r.random()
        if k < 0.25:
            c = r.choice(plain)
            props = new_props(c)
            bad = r.random()
            if bad < 0.05:
                props['Undeclared'] = {'t': 'string', 'v': 'x'}
            elif bad < 0.10:
                nk = [x for x in props if not x.lower().startswith('k')]
                if nk:
                    x = r.choice(nk)
                    props[x] = {'t': 'string' if props[x]['t'] != 'string'
                                else 'uint8', 'v': None}
            elif bad < 0.14:
                ks = [x for x in props if x.lower().startswith('k')]
                if ks:
                    del props[r.choice(ks)]
            elif bad < 0.17:
                nk = [x for x in props if not x.lower().startswith('k')
                      and 'a' not in props[x]]
                if nk:
                    x = r.choice(nk)
                    props[x] = {'t': props[x]['t'], 'a': []}
            elif bad < 0.20:
                # a NULL value whose array-ness contradicts the class
                nk = [x for x in props if not x.lower().startswith('k')]
                if nk:
                    x = r.choice(nk)
                    props[x] = {'t': props[x]['t'], 'v': None} \
                        if 'a' in props[x] else {'t': props[x]['t'],
                                                 'a': None}
            elif bad < 0.24:
                # an embedded instance in a property that is not declared
                # as embedded
                nk = [p['name'] for p in mg.all_props(cmap, c['name'])
                      if not p['key'] and p['type'] == 'string' and
                      not p.get('array') and not p.get('emb')]
                if nk:
                    props = {k: v for k, v in props.items()
                             if k.lower() != nk[0].lower()}
                    props[nk[0]] = {'t': 'string', 'v': mg.gen_embedded(
                        r, cmap, r.choice(plain)['name'])}
            cn = r.choice([c['name'], c['name'], c['name'].lower()])
            if r.random() < 0.04:
                cn = 'NoSuch'
            steps.append(['create', ci, ns(), {'cls': cn, 'props': props},
                          r.random() < 0.2])
        elif k < 0.33:
            steps.append(['create_dup', ci, r.randrange(50),
                          r.choice(['exact', 'case', 'other_ns'])])
        elif k < 0.53:
            steps.append(['get', ci, r.randrange(50),
                          r.choice(['exact', 'exact', 'case', 'reorder',
                                    'wrongkey', 'strkey', 'deleted', 'nsgone',
                                    'wrongcls', 'host', 'intkey']),
                          proplist()])
        elif k < 0.70:
            steps.append(['modify', ci, r.randrange(50),
                          r.choice(['exact', 'exact', 'exact', 'case',
                                    'keychange', 'deleted', 'clsmismatch',
                                    'undeclared', 'wrongtype', 'wrongarray']),
                          r.randrange(1 << 30),
                          r.choice(['none', 'none', 'subset', 'all', 'empty',
                                    'absent', 'bogus'])])
        elif k < 0.80:
            steps.append(['delete', ci, r.randrange(50),
                          r.choice(['exact', 'exact', 'case', 'reorder',
                                    'deleted', 'wrongkey'])])
        elif k < 0.92:
            steps.append(['enum', ci, cname(), ns(),
                          r.choice([None, True, False]), proplist()])
        else:
            steps.append(['enumnames', ci, cname(), ns()])
    return {'check': ID, 'model_seed': mseed, 'nconn': nconn,
            'default_ns': r.choice([None, None] + model['namespaces']),
            'steps': steps}


def vary_path(path, how, r_int):
    """A variant of an existing instance path (pywbem CIMInstanceName)."""
    p = copy.deepcopy(path)
    if how == 'case':
        p.classname = p.classname.swapcase()
        p.keybindings = {k.swapcase(): v for k, v in p.keybindings.items()}
        p.namespace = p.namespace.upper()
    elif how == 'reorder':
        items = list(p.keybindings.items())
        items.reverse()
        p.keybindings = dict(items)
    elif how == 'wrongkey':
        k = sorted(p.keybindings.keys())[0]
        v = p.keybindings[k]
        if isinstance(v, bool):
            p.keybindings[k] = not v
        elif isinstance(v, str) and not isinstance(v, pywbem.CIMDateTime):
            p.keybindings[k] = v + 'x'
        elif isinstance(v, int):
            try:
                p.keybindings[k] = type(v)(int(v) + 1)
            except ValueError:
                p.keybindings[k] = type(v)(int(v) - 1)
        else:
            return None
    elif how == 'strkey':
        k = [k for k, v in p.keybindings.items()
             if isinstance(v, int) and not isinstance(v, bool)]
        if not k:
            return None
        p.keybindings[k[0]] = str(int(p.keybindings[k[0]]))
    elif how == 'intkey':
        k = [k for k, v in p.keybindings.items()
             if isinstance(v, int) and not isinstance(v, bool)]
        if not k:
            return None
        p.keybindings[k[0]] = int(p.keybindings[k[0]])
    elif how == 'nsgone':
        p.namespace = 'no/such'
    elif how == 'wrongcls':
        p.classname = 'NoSuch'
    elif how == 'host':
        p.host = 'other.host:5989'
    return p


def execute(plan):
    import random
    model = mg.gen_model(plan['model_seed'], with_methods=False,
                         extras=True)
    cmap_x = {c['name']: c for c in model['classes']}
    plain_x = [c for c in model['classes'] if not c['assoc']]
    try:
        M = store.Machine(model, plan['nconn'], plan['default_ns'])
    except Exception as e:  # pylint: disable=broad-except
        # the schema and its initial instances are valid
        return {'violations': [{
            'sig': 'C10/valid-model-rejected/%s' % type(e).__name__,
            'msg': 'loading the generated schema and instances: %r' % (e,)}],
            'fingerprint': digest(['build-failed']), 'nontrivial': False,
            'probes': {}, 'faults': {}, 'sim_seconds': 0.0, 'steps': 0}
    RM = M.model
    if any(p.get('keyfalse') for c in model['classes'] for p in c['props']):
        M.bump('schema_with_key_false')
    deleted = []          # paths of deleted instances
    changes = 0
    errors = 0

    def viol(sig, msg):
        M.viol('C10/' + sig, msg)

    def keys_sorted():
        return sorted(RM.inst.keys(), key=repr)

    def pick(idx):
        ks = keys_sorted()
        if not ks:
            return None, None
        k = ks[idx % len(ks)]
        return k, RM.inst[k]

    def check_error(i, what, out, codes, detail=''):
        """out must be a CIMError with a status code in codes."""
        nonlocal errors
        if out[0] == 'cim' and out[1] in codes:
            errors += 1
            M.bump('status_%d' % out[1])
            return True
        viol('wrong-status/%s/expected-%s-got-%s' % (
            what.split('(')[0], '|'.join(map(str, sorted(codes))),
            out[1] if out[0] == 'cim' else
            ('ok' if out[0] == 'ok' else type(out[1]).__name__)),
            'step %d %s: expected CIM status %s, got %s %s' %
            (i, what, sorted(codes), _short(out[:2] if out[0] == 'cim'
                                            else out), detail))
        return False

    def validate_props(cdesc, inst, for_create):
        """Documented rejection reasons of an instance against its class."""
        ap = RM.all_props(cdesc['name'])
        for n, p in inst.properties.items():
            d = ap.get(n.lower())
            if d is None:
                return 'undeclared property %s' % n
            if p.type != d['type'] or p.is_array != bool(d.get('array')):
                return 'property %s type %s/%s vs %s/%s' % (
                    n, p.type, p.is_array, d['type'], d.get('array'))
            if isinstance(p.value, CIMInstance):
                if d.get('emb') == 'instance':
                    if RM.cls(p.value.classname) is None or \
                            not RM.is_sub(p.value.classname, d['embcls']):
                        M.bump('embedded_instance_of_wrong_class')
                        return 'property %s: embedded instance of %s, ' \
                            'declared %s' % (n, p.value.classname,
                                             d['embcls'])
                elif d.get('emb') != 'object':
                    return 'property %s is not an embedded object' % n
            if isinstance(p.value, CIMClass) and d.get('emb') != 'object':
                return 'property %s cannot hold a class' % n
        if for_create:
            for kn in RM.key_names(cdesc['name']):
                if kn not in {x.lower() for x in inst.properties}:
                    return 'missing key %s' % kn
        return None

    def compare_instance(i, what, got, mrec, proplist, class_limit=None):
        view = store.inst_view(got)
        want = dict(mrec['props'])
        if class_limit is not None:
            lim = set(RM.all_props(class_limit))
            want = {n: v for n, v in want.items() if n in lim}
        if proplist is not None:
            pl = {x.lower() for x in (proplist if isinstance(proplist, list)
                                      else [proplist])}
            want = {n: v for n, v in want.items() if n in pl}
            for n in view:
                if n not in pl:
                    viol('propertylist-not-applied',
                         'step %d %s: property %s returned although not in '
                         'PropertyList %r' % (i, what, n, proplist))
                    return False
        for n, (t, ia, cv) in want.items():
            if n not in view:
                if cv is None:
                    continue
                viol('property-lost', 'step %d %s: property %s (value %r) '
                     'missing in %r' % (i, what, n, cv, got))
                return False
            if view[n] != cv:
                viol('wrong-property-value',
                     'step %d %s: property %s is %r, the reference map says '
                     '%r' % (i, what, n, view[n], cv))
                return False
        for n, v in view.items():
            if n not in want and v is not None and \
                    not (isinstance(v, tuple) and v[0] == 'arr' and
                         v[1] == ()):
                viol('unexpected-property', 'step %d %s: property %s=%r not '
                     'in the reference map %r' % (i, what, n, v,
                                                  sorted(want)))
                return False
        return True

    def cross_check(i):
        for ns in model['namespaces']:
            want = sorted(repr(k) for k in RM.inst if k[0] == ns.lower())
            got = []
            for c in model['classes']:
                if c['super'] is not None:
                    continue
                try:
                    for p in M.base.EnumerateInstanceNames(c['name'],
                                                           namespace=ns):
                        got.append(repr(store.path_key(p, ns)))
                except CIMError as e:
                    viol('cross-invariant-raised', 'step %d: %r' % (i, e))
                    return False
            if sorted(got) != want:
                viol('store-differs-from-model',
                     'after step %d namespace %s: server has %s, reference '
                     'map has %s' % (i, ns, sorted(got), want))
                return False
        return True

    for i, st in enumerate(plan['steps']):
        if M.V:
            break
        kind, ci = st[0], st[1]
        if kind in ('create', 'create_dup'):
            if kind == 'create_dup':
                key, mrec = pick(st[2])
                if mrec is None:
                    continue
                ns = mrec['ns']
                cdesc = RM.cls(mrec['cls'])
                if cdesc.get('assoc'):
                    continue    # association instances belong to C13
                ispec = None
                inst = CIMInstance(
                    mrec['cls'] if st[3] != 'case' else mrec['cls'].upper())
                for kn, kv in copy.deepcopy(
                        mrec['path']).keybindings.items():
                    d = RM.all_props(mrec['cls'])[kn.lower()]
                    inst[kn if st[3] != 'case' else kn.upper()] = \
                        pywbem.CIMProperty(kn, kv, type=d['type'])
                if st[3] == 'other_ns':
                    others = [n for n in model['namespaces']
                              if n.lower() != ns.lower()]
                    if not others:
                        continue
                    ns = others[0]
                args = {'NewInstance': inst, 'namespace': ns}
                with_path = False
            else:
                ns_arg, ispec, with_path = st[2], st[3], st[4]
                ns = M.eff_ns(ns_arg)
                cdesc = RM.cls(ispec['cls'])
                try:
                    inst = mg.inst_to_cim(ispec, cdesc)
                except Exception:  # pylint: disable=broad-except
                    continue
                args = {'NewInstance': inst}
                if ns_arg is not None:
                    args['namespace'] = ns_arg
            what = 'CreateInstance(%s in %s)' % (inst.classname, ns)
            inst_copy = copy.deepcopy(inst)
            out, snap, _kw = M.call(ci, 'CreateInstance', args)
            M.trace.append(('create', out[0], out[1] if out[0] == 'cim'
                            else ''))
            codes = set()
            t = M.expect_target(ns, inst_copy.classname)
            if t:
                codes.add(t)
            elif cdesc is not None:
                why = validate_props(cdesc, inst_copy, True)
                if why:
                    codes.add(store.ST['INVALID_PARAMETER'])
                else:
                    k2 = RM.make_key(ns, inst_copy)
                    if k2 in RM.inst:
                        codes.add(store.ST['ALREADY_EXISTS'])
            if out[0] == 'exc':
                viol('undocumented-exception/CreateInstance/' +
                     type(out[1]).__name__, 'step %d %s: %r' %
                     (i, what, out[1]))
                break
            if codes:
                check_error(i, what, out, codes)
                continue
            if out[0] != 'ok':
                viol('valid-create-rejected/%s' % out[1],
                     'step %d %s rejected: %r' % (i, what, out[2]))
                break
            k2 = RM.store(ns, inst_copy)
            changes += 1
            if any(isinstance(p.value, (CIMInstance, CIMClass)) or
                   isinstance(p.value, list) and p.value and
                   isinstance(p.value[0], CIMInstance)
                   for p in inst_copy.properties.values()):
                M.bump('created_with_embedded_object')
            if store.path_key(snap, ns) != k2:
                viol('created-path-differs', 'step %d %s returned %r, the '
                     'keys of the instance are %r' % (i, what, snap, k2))
            continue
        if kind in ('get', 'modify', 'delete'):
            how = st[3]
            if how == 'deleted':
                if not deleted:
                    continue
                path = copy.deepcopy(deleted[st[2] % len(deleted)])
                key, mrec = store.path_key(path), None
                if key in RM.inst:       # re-created meanwhile
                    mrec = RM.inst[key]
            else:
                key, mrec = pick(st[2])
                if mrec is None:
                    continue
                path = vary_path(mrec['path'], how, st[2]) \
                    if how in ('case', 'reorder', 'wrongkey', 'strkey',
                               'intkey', 'nsgone', 'wrongcls', 'host') \
                    else copy.deepcopy(mrec['path'])
                if path is None:
                    continue
                if how in ('wrongkey', 'strkey', 'nsgone', 'wrongcls'):
                    key = store.path_key(path)
                    mrec = RM.inst.get(key)
            ns = path.namespace
            codes = set()
            t = M.expect_target(ns, path.classname)
            if t:
                codes.add(t)
            elif mrec is None:
                codes.add(store.ST['NOT_FOUND'])
            if kind == 'get':
                pl = st[4]
                what = 'GetInstance(%s, PropertyList=%r)' % (path, pl)
                args = {'InstanceName': path}
                if pl is not None:
                    args['PropertyList'] = pl
                out, snap, _kw = M.call(ci, 'GetInstance', args)
                M.trace.append(('get', how, out[0], out[1]
                                if out[0] == 'cim' else ''))
                if out[0] == 'exc':
                    viol('undocumented-exception/GetInstance/' +
                         type(out[1]).__name__, 'step %d %s: %r' %
                         (i, what, out[1]))
                    break
                if codes:
                    check_error(i, what, out, codes)
                    continue
                if out[0] != 'ok':
                    viol('existing-instance-not-found/%s' % out[1],
                         'step %d %s (variant %s): %r' % (i, what, how,
                                                         out[2]))
                    break
                M.bump('get_variant_' + how)
                compare_instance(i, what, snap, mrec, pl)
                if snap.path is None or \
                        store.path_key(snap.path, ns) != key:
                    viol('returned-path-differs', 'step %d %s: path %r' %
                         (i, what, snap.path))
                continue
            if kind == 'delete':
                what = 'DeleteInstance(%s)' % (path,)
                pcopy = path.copy()
                out, snap, _kw = M.call(ci, 'DeleteInstance',
                                        {'InstanceName': path})
                M.trace.append(('delete', how, out[0], out[1]
                                if out[0] == 'cim' else ''))
                if out[0] == 'exc':
                    viol('undocumented-exception/DeleteInstance/' +
                         type(out[1]).__name__, 'step %d %s: %r' %
                         (i, what, out[1]))
                    break
                if codes:
                    check_error(i, what, out, codes)
                    continue
                if out[0] != 'ok':
                    viol('existing-instance-not-deleted/%s' % out[1],
                         'step %d %s: %r' % (i, what, out[2]))
                    break
                deleted.append(copy.deepcopy(mrec['path']))
                del RM.inst[key]
                changes += 1
                continue
            # modify
            _k, _ci, idx, how, vseed, plmode = st
            cname = mrec['cls'] if mrec else path.classname
            cdesc = RM.cls(cname)
            if cdesc is not None and cdesc.get('assoc'):
                continue        # association instances belong to C13
            vr = random.Random(vseed)
            props = []
            if cdesc is not None:
                ap = RM.all_props(cdesc['name'])
                for n, d in sorted(ap.items()):
                    if d.get('key'):
                        if vr.random() < 0.5 and mrec is not None:
                            # key properties may be repeated unchanged
                            kv = copy.deepcopy(
                                [v for k, v in
                                 mrec['path'].keybindings.items()
                                 if k.lower() == n][0])
                            props.append(pywbem.CIMProperty(
                                d['name'], kv, type=d['type']))
                        continue
                    if vr.random() < 0.6:
                        vs = pvalue(vr, d, 0.2, cmap_x, plain_x)
                        props.append(mg.prop_to_cim(
                            vr.choice([d['name'], d['name'].lower()]), vs,
                            d))
                if how == 'keychange':
                    kn = RM.key_names(cdesc['name'])[0]
                    d = ap[kn]
                    vs = mg.gen_value(vr, d['type'], False, 0.0)
                    props = [p for p in props if p.name.lower() != kn]
                    props.append(mg.prop_to_cim(d['name'], vs, d))
                elif how == 'undeclared':
                    props.append(pywbem.CIMProperty('Undeclared', 'x'))
                elif how == 'wrongtype':
                    cand = [d for d in ap.values() if not d.get('key')]
                    if cand:
                        d = cand[0]
                        props = [p for p in props
                                 if p.name.lower() != d['name'].lower()]
                        props.append(pywbem.CIMProperty(
                            d['name'], None,
                            type='string' if d['type'] != 'string'
                            else 'uint8', is_array=d.get('array', False)))
                elif how == 'wrongarray':
                    # NULL with the wrong array-ness
                    cand = [d for d in ap.values() if not d.get('key')]
                    if cand:
                        d = cand[vseed % len(cand)]
                        props = [p for p in props
                                 if p.name.lower() != d['name'].lower()]
                        props.append(pywbem.CIMProperty(
                            d['name'], None, type=d['type'],
                            is_array=not d.get('array', False)))
            inst = CIMInstance(cname if how != 'clsmismatch' else 'Other',
                               properties=props)
            # (assigned last: CIMInstance syncs path keybindings when a key
            # property is set)
            inst.path = path
            supplied = [p.name for p in props]
            if plmode == 'none':
                pl = None
            elif plmode == 'empty':
                pl = []
            elif plmode == 'all':
                pl = list(supplied)
            elif plmode == 'subset':
                pl = supplied[:max(1, len(supplied) // 2)]

            elif plmode == 'bogus':
                pl = supplied[:1] + ['NoSuchProp']
            else:   # 'absent': names a declared property not supplied
                pl = list(supplied[:1])
                if cdesc is not None:
                    absent = [d['name'] for d in RM.all_props(
                        cdesc['name']).values()
                        if not d.get('key') and d['name'].lower() not in
                        {x.lower() for x in supplied}]
                    pl += absent[:1]
                    if vr.random() < 0.4:
                        # ... or a key property that is not supplied: keys
                        # cannot be modified, the call leaves it alone
                        pl += [RM.all_props(cdesc['name'])[kn]['name']
                               for kn in RM.key_names(cdesc['name'])
                               if kn not in {x.lower() for x in supplied}][:1]
            if plmode in ('all', 'subset'):
                # CIM names are case insensitive: the PropertyList may spell
                # a name differently than the instance does
                pl = [x.swapcase() if vr.random() < 0.4 else x for x in pl]
            what = 'ModifyInstance(%s, props=%s, PropertyList=%r)' % (
                path, supplied, pl)
            args = {'ModifiedInstance': inst}
            if pl is not None:
                args['PropertyList'] = pl
            inst_copy = copy.deepcopy(inst)
            out, snap, _kw = M.call(ci, 'ModifyInstance', args)
            M.trace.append(('modify', how, plmode, out[0], out[1]
                            if out[0] == 'cim' else ''))
            if how == 'clsmismatch':
                codes.add(store.ST['INVALID_PARAMETER'])
            if not codes and cdesc is not None:
                if pl is not None and any(
                        x.lower() not in RM.all_props(cdesc['name'])
                        for x in pl):
                    codes.add(store.ST['INVALID_PARAMETER'])
                why = validate_props(cdesc, inst_copy, False)
                if why:
                    codes.add(store.ST['INVALID_PARAMETER'])
                else:
                    for p in inst_copy.properties.values():
                        d = RM.all_props(cdesc['name'])[p.name.lower()]
                        if d.get('key') and mrec is not None and \
                                store.canon_value(p.value) != \
                                mrec['props'][p.name.lower()][2]:
                            codes.add(store.ST['INVALID_PARAMETER'])
            if out[0] == 'exc':
                viol('undocumented-exception/ModifyInstance/' +
                     type(out[1]).__name__,
                     'step %d %s: %r' % (i, what, out[1]))
                break
            if codes:
                check_error(i, what, out, codes)
                continue
            if out[0] != 'ok':
                viol('valid-modify-rejected/%s' % out[1],
                     'step %d %s: %r' % (i, what, out[2]))
                break
            changes += 1
            sup = {p.name.lower(): p for p in inst_copy.properties.values()}
            if pl is None:
                targets = list(sup)
            else:
                targets = [x.lower() for x in pl]
            for n in targets:
                d = RM.all_props(cdesc['name'])[n]
                if n in sup:
                    p = sup[n]
                    mrec['props'][n] = (p.type, p.is_array,
                                        store.canon_value(p.value))
                elif d.get('key'):
                    # a key named in PropertyList but not supplied: keys
                    # cannot be modified, it keeps its value
                    M.bump('modify_pl_names_absent_key')
                else:
                    mrec['props'][n] = (d['type'], bool(d.get('array')),
                                        None)
            M.bump('modify_pl_' + plmode)
            continue
        if kind in ('enum', 'enumnames'):
            cn, ns_arg = st[2], st[3]
            ns = M.eff_ns(ns_arg)
            args = {'ClassName': cn}
            if ns_arg is not None:
                args['namespace'] = ns_arg
            if kind == 'enum':
                di, pl = st[4], st[5]
                if di is not None:
                    args['DeepInheritance'] = di
                if pl is not None:
                    args['PropertyList'] = pl
                opn = 'EnumerateInstances'
            else:
                di, pl = None, None
                opn = 'EnumerateInstanceNames'
            what = '%s(%s)' % (opn, args)
            out, snap, _kw = M.call(ci, opn, args)
            M.trace.append((kind, out[0], out[1] if out[0] == 'cim' else '',
                            len(snap) if out[0] == 'ok' else -1))
            if out[0] == 'exc':
                viol('undocumented-exception/%s/%s' % (
                    opn, type(out[1]).__name__),
                    'step %d %s: %r' % (i, what, out[1]))
                break
            t = M.expect_target(ns, cn)
            if t:
                check_error(i, what, out, {t})
                continue
            if out[0] != 'ok':
                viol('valid-enumeration-rejected/%s' % out[1],
                     'step %d %s: %r' % (i, what, out[2]))
                break
            want = sorted(repr(k) for k in RM.subtree_keys(ns, cn))
            if kind == 'enumnames':
                got = sorted(repr(store.path_key(p, ns)) for p in snap)
            else:
                got = sorted(repr(store.path_key(x.path, ns)) for x in snap)
            if got != want:
                viol('subtree-membership-differs',
                     'step %d %s: returned %s, reference map says %s' %
                     (i, what, got, want))
                break
            if kind == 'enum':
                for x in snap:
                    mrec = RM.inst[store.path_key(x.path, ns)]
                    lim = RM.cls(cn)['name'] if di is False else None
                    if not compare_instance(i, what, x, mrec, pl, lim):
                        break
            continue
        if i % 5 == 4:
            cross_check(i)
    if not M.V:
        cross_check(len(plan['steps']))
    seen = set()
    out = []
    for v in M.V:
        if v['sig'] not in seen:
            seen.add(v['sig'])
            out.append(v)
    return {'violations': out, 'fingerprint': digest(M.trace),
            'nontrivial': changes >= 3 and errors >= 1, 'probes': M.probes,
            'faults': {'aliasing_mutation': M.probes.get(
                'aliasing_mutations', 0)},
            'sim_seconds': 0.0, 'steps': len(plan['steps'])}


def _short(x, n=300):
    s = repr(x)
    return s if len(s) <= n else s[:n] + '...'


def sample(plan, res):
    return {'model_seed': plan['model_seed'], 'nconn': plan['nconn'],
            'steps': plan['steps'][:8], 'n_steps': len(plan['steps'])}


def shrink_candidates(plan):
    n = len(plan['steps'])
    for i in range(n - 1, -1, -1):
        p = copy.deepcopy(plan)
        del p['steps'][i]
        yield p
    if plan['nconn'] > 1:
        p = copy.deepcopy(plan)
        p['nconn'] = 1
        yield p
