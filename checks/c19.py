"""C19 - logging, recorders, statistics and debug never change what an
operation returns.  The same seeded world (repository, operation program,
reply faults) is executed twice in freshly reset worlds: once bare, once
under a generated observer configuration; the world is deterministic, so any
difference in outcome is caused by the observers."""
import io
import os
import re
import sys
import copy
import uuid
import atexit
import base64
import shutil
import logging
import tempfile

import pywbem
from pywbem import CIMError

from simkit import modelgen as mg, opgen, wire, wbemserver, replyfaults as rf
from simkit.prng import stream, digest
from checks.c04 import _Ids
from checks import c02

ID = 'C19'
LEVEL = 'exploration'
TIERS = {'quick': {'runs': 6400, 'budget_s': 50, 'models': 48},
         'thorough': {'runs': 10 ** 9, 'budget_s': 600, 'models': 2000}}
RUN_WALL = 120
RULE = ('each run = generated repository (string values with non-ASCII '
        'content) + 3-10 operations + 0-3 reply faults (CIM errors, '
        'malformed replies, HTTP errors, connection errors, timeouts), '
        'executed once bare and once under a generated observer '
        'configuration (configure_logger name/destination/detail level incl. '
        'small and large integers, TestClientRecorder, LogOperationRecorder '
        'enabled/disabled, stats_enabled, debug); non-trivial = at least one '
        'observer enabled and at least 2 operations reached the server; '
        'distinct = digest of (observer configuration, outcome classes)')
COMPONENTS = {
    'real': ['pywbem/_recorder.py', 'pywbem/_logging.py',
             'pywbem/_statistics.py', 'WBEMConnection operation methods',
             '_cim_http', 'requests/urllib3/http.client', 'Python logging'],
    'stub': ['simulated socket', 'SimWBEMServer + reply fault layer',
             'log destinations: scratch file / captured stderr']}
ASSUMPTIONS = [
    'the two executions see byte-identical server behaviour (checked: the '
    'recorded exchanges of both executions are compared)',
    'statistics clause is evaluated only for programs without Iter... '
    'operations (those call other public operations internally)']

URL = 'http://FakedUrl:5988'
_TMP = None


def _tmpdir():
    global _TMP  # pylint: disable=global-statement
    if _TMP is None:
        base = os.environ.get('VERIF_WORK')
        _TMP = tempfile.mkdtemp(prefix='verif-c19-', dir=base)
        atexit.register(shutil.rmtree, _TMP, True)
    return _TMP


def gen_plan(run_seed, tier, index):
    r = stream(run_seed, 'plan')
    mseed = r.randrange(TIERS[tier]['models'])
    model = mg.gen_model(mseed)
    dn = r.choice([None] + model['namespaces'])
    n = r.randint(3, 10)
    ops = opgen.gen_program(stream(run_seed, 'ops'), model,
                            dn or 'root/cimv2', n, valid_only=True,
                            with_export=True, client_invalid=True)
    fr = stream(run_seed, 'faults')
    faults = []
    for _ in range(fr.choice([0, 1, 1, 2, 3])):
        f = rf.gen_fault(fr) if fr.random() > 0.05 else \
            {'kind': 'refuse', 'times': fr.choice([1, 3, 5]), 'seed': 0}
        f['op'] = fr.randrange(n)
        f['x'] = fr.choice([0, 0, 1])
        faults.append(f)
    o = stream(run_seed, 'observers')
    obs = {}
    if o.random() < 0.75:
        obs['logger'] = {
            'name': o.choice(['api', 'http', 'all']),
            'dest': o.choice(['file', 'file', 'stderr']),
            'detail': o.choice(['all', 'paths', 'summary', None, 0, 1, 2, 3,
                                5, 10, 37, 50, 51, 52, 53, 100, 101, 102,
                                103, 250, 1000, 10 ** 6] +
                               [o.randint(1, 400) for _ in range(6)]),
            'conn': o.choice(['conn', 'conn', True])}
        if o.random() < 0.2:
            obs['logger2'] = {
                'name': o.choice(['api', 'http']),
                'dest': 'file',
                'detail': o.choice(['all', 'summary', 7, 123]),
                'conn': 'conn'}
    if o.random() < 0.5:
        obs['testrecorder'] = {'enabled': o.random() < 0.85}
    if o.random() < 0.15:
        obs['logrecorder_disabled'] = True
    obs['stats'] = o.random() < 0.5
    obs['debug'] = o.random() < 0.4
    if o.random() < 0.15:
        # the caller continues on a copy of the connection
        ops.insert(o.randrange(len(ops) + 1), {'op': '$copy_conn'})
    return {'check': ID, 'model_seed': mseed, 'default_ns': dn, 'ops': ops,
            'faults': faults, 'ids_seed': fr.getrandbits(32),
            'timeout': r.choice([None, 30]),
            'password': 'S3cr3t-%08x' % o.getrandbits(32),
            'creds_form': o.choice(['tuple', 'tuple', 'list']),
            'observers': obs}


def _reset_logging():
    pywbem.WBEMConnection._reset_logging_config()  # noqa
    pywbem.WBEMConnection._conn_counter = 0  # noqa
    for name in ('pywbem.api', 'pywbem.http', 'pywbem'):
        lg = logging.getLogger(name)
        for h in list(lg.handlers):
            lg.removeHandler(h)
            try:
                h.close()
            except Exception:  # pylint: disable=broad-except
                pass
        lg.setLevel(logging.NOTSET)
    d = logging.Logger.manager.loggerDict
    for k in [k for k in d if k.startswith('pywbem.api.') or
              k.startswith('pywbem.http.')]:
        del d[k]


def run_world(plan, observed):
    """One execution.  Returns dict with outcomes, exchanges, observations."""
    model = mg.gen_model(plan['model_seed'])
    dn = plan['default_ns']
    kw = {} if dn is None else {'default_namespace': dn}
    if plan.get('timeout') is not None:
        kw['timeout'] = plan['timeout']
    obs = plan['observers'] if observed else {}
    _reset_logging()
    saved_uuid4 = uuid.uuid4
    uuid.uuid4 = _Ids(plan['ids_seed'])
    out = {'outcomes': [], 'raw': [], 'logs': '', 'yaml': '', 'stats': None,
           'strs': '', 'setup_error': None}
    logfiles = []
    stderr_cap = io.StringIO()
    real_stderr = sys.stderr
    try:
        conn_s = mg.fresh_conn(model)
        mg.enable_query(conn_s)     # stub query engine (see modelgen)
        opgen.register_echo(conn_s, model)
        server = wbemserver.SimWBEMServer(conn_s)
        peer = c02.Peer(server, plan)
        net = wire.Net(peer).install()
        try:
            if obs.get('stats'):
                kw['stats_enabled'] = True
            creds = ('user', plan['password'])
            if plan.get('creds_form') == 'list':
                creds = list(creds)
            conn = pywbem.WBEMConnection(URL, creds, **kw)
            yaml_fp = None
            try:
                for key in ('logger', 'logger2'):
                    lc = obs.get(key)
                    if not lc:
                        continue
                    fn = os.path.join(_tmpdir(), '%s-%d.log' %
                                      (key, os.getpid()))
                    if os.path.exists(fn):
                        os.remove(fn)
                    logfiles.append(fn)
                    sys.stderr = stderr_cap
                    try:
                        pywbem.configure_logger(
                            lc['name'], log_dest=lc['dest'],
                            detail_level=lc['detail'], log_filename=fn,
                            connection=(conn if lc['conn'] == 'conn'
                                        else True))
                    finally:
                        sys.stderr = real_stderr
                if obs.get('logger', {}).get('conn') is True:
                    # 'True' activates connections created afterwards
                    conn = pywbem.WBEMConnection(URL, creds, **kw)
                if 'testrecorder' in obs:
                    yaml_fp = io.StringIO()
                    rec = pywbem.TestClientRecorder(yaml_fp)
                    conn.add_operation_recorder(rec)
                    if not obs['testrecorder']['enabled']:
                        rec.disable()
                if obs.get('logrecorder_disabled'):
                    for rcd in conn.operation_recorders:
                        if isinstance(rcd, pywbem.LogOperationRecorder):
                            rcd.disable()
                if obs.get('debug'):
                    conn.debug = True
            except Exception as e:  # pylint: disable=broad-except
                out['setup_error'] = '%s: %s' % (type(e).__name__, e)
                return out
            results = []
            for i, op in enumerate(plan['ops']):
                peer.begin_op(i)
                nex0 = len(net.exchanges)
                sys.stderr = stderr_cap
                try:
                    if op['op'] == '$copy_conn':
                        try:
                            conn = conn.copy()
                            res = ('ok', None)
                        except Exception as e:  # pylint: disable=broad-except
                            res = ('exc', e)
                    else:
                        res = opgen.call(conn, op, results)
                finally:
                    sys.stderr = real_stderr
                results.append(res)
                exs = net.exchanges[nex0:]
                lr = None
                try:
                    lr = (conn.last_raw_request, conn.last_raw_reply)
                except Exception as e:  # pylint: disable=broad-except
                    lr = ('EXC', repr(e))
                out['raw'].append((lr, [
                    (e['request'], e['reply']) for e in exs]))
                out['outcomes'].append(res)
            if obs.get('stats'):
                out['stats'] = {name: (st.count, st.exception_count)
                                for name, st in conn.statistics.snapshot()}
            out['strs'] = str(conn) + '\n' + repr(conn)
            if yaml_fp is not None:
                out['yaml'] = yaml_fp.getvalue()
            out['nreached'] = sum(1 for _lr, exs in out['raw'] if exs)
            out['fired'] = list(peer.fired)
        finally:
            net.uninstall()
    finally:
        uuid.uuid4 = saved_uuid4
        sys.stderr = real_stderr
        _reset_logging()
        logs = stderr_cap.getvalue()
        for fn in logfiles:
            try:
                with open(fn, encoding='utf-8', errors='replace') as f:
                    logs += f.read()
                os.remove(fn)
            except OSError:
                pass
        out['logs'] = logs
    return out


def outcome_key(res):
    kind, val = res
    if kind == 'ok':
        return ('ok', val)
    e = val
    if isinstance(e, CIMError):
        return ('exc', 'CIMError', e.status_code, e.status_description)
    try:
        text = str(e)
    except Exception as x:  # pylint: disable=broad-except
        # (an exception object that cannot be formatted is compared by type)
        text = '<str() raised %s>' % type(x).__name__
    return ('exc', type(e).__name__, text)


def _eq(a, b):
    try:
        return a == b
    except Exception:  # pylint: disable=broad-except
        return repr(a) == repr(b)


def execute(plan):
    V = []
    probes = {}

    def viol(sig, msg):
        V.append({'sig': 'C19/' + sig, 'msg': msg})

    def bump(k, n=1):
        probes[k] = probes.get(k, 0) + n

    bare = run_world(plan, False)
    obsd = run_world(plan, True)
    obs = plan['observers']
    faults = {}
    for fk in bare.get('fired', []):
        faults[fk[0]] = faults.get(fk[0], 0) + 1
    if bare['setup_error']:
        viol('harness-bare-setup', bare['setup_error'])
    if obsd['setup_error']:
        viol('observer-setup-raised',
             'configuring observers %r raised %s' %
             (obs, obsd['setup_error']))
    trace = [repr(sorted(obs.items()))]
    n = min(len(bare['outcomes']), len(obsd['outcomes']))
    for i in range(n):
        op = plan['ops'][i]
        kb, ko = outcome_key(bare['outcomes'][i]), \
            outcome_key(obsd['outcomes'][i])
        trace.append((op['op'], kb[0], kb[1] if kb[0] == 'exc' else ''))
        # the world must have behaved identically up to here
        exb = bare['raw'][i][1]
        exo = obsd['raw'][i][1]
        if kb[0] != ko[0] or not _eq(kb, ko):
            k1 = 'ok' if kb[0] == 'ok' else kb[1]
            k2 = 'ok' if ko[0] == 'ok' else ko[1]
            sig = 'outcome-changed/%s-to-%s' % (k1, k2)
            eo = obsd['outcomes'][i][1]
            if ko[0] == 'exc' and not isinstance(eo, pywbem.Error) and \
                    k1 != k2:
                # an observer raised: name it by exception and code site
                sig = 'observer-raised/%s/%s' % (
                    k2, c02.innermost_pywbem_frame(eo))
            viol(sig,
                 'op #%d %s: bare -> %s; with observers %r -> %s' %
                 (i, op['op'], c02._short(kb, 300), obs,
                  c02._short(ko, 600)))
            break
        if [e[0] for e in exb] != [e[0] for e in exo]:
            viol('requests-changed',
                 'op #%d %s: observers changed the bytes sent' %
                 (i, op['op']))
            break
        # last_raw_request / last_raw_reply must not depend on the observers
        lrb = bare['raw'][i][0]
        lr = obsd['raw'][i][0]
        if lrb and lr and lrb[0] != 'EXC' and lr[0] != 'EXC' and \
                (lrb[0] != lr[0] or lrb[1] != lr[1]):
            viol('last-raw-depends-on-observers',
                 'op #%d %s: last_raw_request/last_raw_reply are %s/%s bare '
                 'but %s/%s with observers %r' %
                 (i, op['op'], c02._short(lrb[0], 80), c02._short(lrb[1], 80),
                  c02._short(lr[0], 80), c02._short(lr[1], 80), obs))
        # an operation that got no reply at all has no last_raw_reply
        for tag, ex_, lr_ in (('bare', exb, lrb), ('observed', exo, lr)):
            if ex_ and lr_ and lr_[0] != 'EXC' and all(
                    not any(isinstance(a, bytes) and a for a in (e[1] or []))
                    for e in ex_) and lr_[1] is not None:
                viol('stale-last-raw-reply',
                     'op #%d %s (%s execution): no reply byte was received '
                     'but last_raw_reply is %s' %
                     (i, op['op'], tag, c02._short(lr_[1], 120)))
        # last_raw_request / last_raw_reply
        lr = obsd['raw'][i][0]
        if lr and lr[0] == 'EXC':
            viol('last-raw-raised', 'op #%d: %s' % (i, lr[1]))
        elif exo and exo[-1][0].startswith(b'POST '):
            # (a redirect answered by the HTTP layer with a body-less GET is
            # not an exchange of this operation's CIM-XML)
            req = exo[-1][0]
            body = req.partition(b'\r\n\r\n')[2]
            exp = body.split(b'?>\n', 1)[-1] if body.startswith(b'<?xml') \
                else body
            got = lr[0]
            gotb = got.encode('utf-8') if isinstance(got, str) else got
            if gotb != exp:
                viol('last-raw-request-differs',
                     'op #%d %s: last_raw_request %s != sent body %s' %
                     (i, op['op'], c02._short(gotb, 200),
                      c02._short(exp, 200)))
            rep = exo[-1][1] or []
            if len(rep) == 1 and isinstance(rep[0], bytes) and \
                    rep[0].startswith(b'HTTP/1.1 200') and \
                    b'Transfer-Encoding' not in rep[0][:400] and \
                    b'Content-Encoding' not in rep[0][:400] and \
                    obsd['outcomes'][i][0] == 'ok':
                rbody = rep[0].partition(b'\r\n\r\n')[2]
                if lr[1] != rbody:
                    viol('last-raw-reply-differs',
                         'op #%d %s: last_raw_reply %s != received %s' %
                         (i, op['op'], c02._short(lr[1], 200),
                          c02._short(rbody, 200)))
    # statistics
    if obsd['stats'] is not None and not V and \
            not any(o['op'].startswith('Iter') or o['op'] == '$copy_conn'
                    for o in plan['ops']):
        exp = {}
        for i, o in enumerate(plan['ops'][:n]):
            cnt = exp.setdefault(o['op'], [0, 0])
            cnt[0] += 1
            if obsd['outcomes'][i][0] == 'exc':
                cnt[1] += 1
        got = {k: list(v) for k, v in obsd['stats'].items()}
        if got != exp:
            viol('statistics-miscount',
                 'expected (count, exception_count) per operation %s, '
                 'statistics report %s' % (exp, got))
        bump('stats_checked')
    # password secrecy
    pw = plan['password']
    b64 = base64.b64encode(('user:' + pw).encode()).decode()
    for where, text in (('log', obsd['logs']), ('recorder', obsd['yaml']),
                        ('str/repr', obsd['strs'])):
        if pw in text or b64 in text:
            viol('password-leaked/' + where,
                 'password token found in %s output: ...%s...' %
                 (where, text[max(0, text.find(pw if pw in text else b64) -
                                  80):][:240]))
    if 'logger' in obs:
        bump('detail_%s' % (obs['logger']['detail']
                            if not isinstance(obs['logger']['detail'], int)
                            else 'int'))
        bump('dest_' + obs['logger']['dest'])
        if obsd['logs']:
            bump('log_output_nonempty')
    if obsd['yaml']:
        bump('yaml_output_nonempty')
    if 'Traceback' in obsd['logs'] or '--- Logging error ---' in obsd['logs']:
        viol('logging-error-printed', c02._short(obsd['logs'][
            max(0, obsd['logs'].find('Logging error') - 100):][:1500], 1500))
    for i in range(n):
        kb = outcome_key(bare['outcomes'][i])
        bump('outcome_' + (kb[1] if kb[0] == 'exc' else 'ok'))
    any_obs = bool(obs.get('logger') or obs.get('testrecorder') or
                   obs.get('stats') or obs.get('debug'))
    return {'violations': V[:2], 'fingerprint': digest(trace),
            'nontrivial': any_obs and obsd.get('nreached', 0) >= 2,
            'probes': probes, 'faults': faults, 'sim_seconds': 0.0,
            'steps': 2 * len(plan['ops'])}


def sample(plan, res):
    return {'observers': plan['observers'], 'faults': plan['faults'],
            'ops': [o['op'] for o in plan['ops']],
            'model_seed': plan['model_seed']}


def shrink_candidates(plan):
    n = len(plan['ops'])
    for k in range(n - 1, 0, -1):
        p = copy.deepcopy(plan)
        p['ops'] = p['ops'][:k]
        yield p
    for i in range(n - 1, -1, -1):
        p = copy.deepcopy(plan)
        del p['ops'][i]
        for f in p['faults']:
            if f['op'] > i:
                f['op'] -= 1
            elif f['op'] == i:
                f['op'] = -1
        for o in p['ops']:
            for a in o.get('p', []):
                if isinstance(a, dict) and '$ctx' in a and a['$ctx'] >= i:
                    a['$ctx'] = a['$ctx'] - 1 if a['$ctx'] > i else -1
        yield p
    for i in range(len(plan['faults']) - 1, -1, -1):
        p = copy.deepcopy(plan)
        del p['faults'][i]
        yield p
    obs = plan['observers']
    for k in list(obs):
        if k in ('stats', 'debug'):
            if obs[k]:
                p = copy.deepcopy(plan)
                p['observers'][k] = False
                yield p
        else:
            p = copy.deepcopy(plan)
            del p['observers'][k]
            yield p
