"""C11 - a failed mock-repository operation changes nothing.
Fault enumeration: for a generated starting state (reached by a random valid
history) and a generated batch of n <= 8 elements, every position k x every
rejection reason applicable to that element kind is enumerated for each batch
API; single-object operations are rejected for every documented reason.  If
the call raised, the sorted dump of the complete repository must be
byte-identical before and after."""
import os
import copy
import atexit
import pickle
import shutil
import random
import tempfile
import warnings

import pywbem
import pywbem_mock
from pywbem import (CIMError, CIMInstance, CIMInstanceName, CIMClass,
                    CIMProperty, CIMQualifier, CIMQualifierDeclaration)

from simkit import modelgen as mg, interop
from simkit.prng import stream, digest

ID = 'C11'
LEVEL = 'fault_enumeration'
TIERS = {'quick': {'runs': 64, 'budget_s': 100, 'models': 48},
         'thorough': {'runs': 10 ** 9, 'budget_s': 600, 'models': 2000}}
RUN_WALL = 240
RULE = ('each run = one generated starting state (schema with associations '
        'over 1-3 namespaces + a random valid history incl. association '
        'instances without shadow copies) and one generated batch of 2-8 '
        'elements (qualifier declarations, classes, instances); enumerated '
        'exhaustively per run: every position k x every rejection reason of '
        'the element kind x the batch APIs compile_mof_string, '
        'compile_mof_file, compile_schema_classes, add_cimobjects, plus every '
        'single-object operation (CreateClass, ModifyClass, DeleteClass, '
        'SetQualifier, DeleteQualifier, Create/Modify/DeleteInstance incl. '
        'multi-namespace associations, add_namespace, remove_namespace, '
        'namespace-provider CreateInstance/DeleteInstance) with every '
        'documented rejection reason; evaluations = enumerated (API, k, '
        'reason) cases; non-trivial = the call raised (so the oracle '
        'applied); distinct = distinct (API, reason, k class, state digest)')
COMPONENTS = {
    'real': ['FakedWBEMConnection compile_mof_string/compile_mof_file/'
             'compile_schema_classes/add_cimobjects/add_namespace/'
             'remove_namespace', 'MOFCompiler + _MockMOFWBEMConnection',
             'MainProvider class/qualifier operations', 'ProviderDispatcher '
             '+ InstanceWriteProvider incl. multi-namespace association '
             'handling', 'CIMNamespaceProvider'],
    'stub': ['nothing; repository snapshot/restore via pickle of the '
             'InMemoryRepository content; MOF text produced with tomof()']}
ASSUMPTIONS = [
    'the repository dump covers namespaces, classes, instances and '
    'qualifier declarations of every namespace (tocimxmlstr of each object)',
    'a case where the call does not raise is counted but not judged']

_TMP = None


def _tmpdir():
    global _TMP  # pylint: disable=global-statement
    if _TMP is None:
        _TMP = tempfile.mkdtemp(prefix='verif-c11-',
                                dir=os.environ.get('VERIF_WORK'))
        atexit.register(shutil.rmtree, _TMP, True)
    return _TMP


# ------------------------------------------------------------------ plans
class RejectingProvider(pywbem_mock.InstanceWriteProvider):
    """User defined provider that refuses its k-th DeleteInstance."""

    def __init__(self, cimrepository, classname, k):
        super().__init__(cimrepository)
        self.provider_classnames = classname
        self.k = k
        self.n = 0

    def DeleteInstance(self, InstanceName):
        self.n += 1
        if self.n == self.k:
            raise CIMError(pywbem.CIM_ERR_ACCESS_DENIED,
                           'provider refuses to delete %s' % InstanceName)
        return super().DeleteInstance(InstanceName)


def gen_plan(run_seed, tier, index):
    r = stream(run_seed, 'plan')
    base = 500000
    while True:
        mseed = base + r.randrange(TIERS[tier]['models'] * 3)
        nns = r.choice([None, 2, 3])
        model = mg.gen_model(mseed, nns=nns, with_methods=False, max_inst=6)
        if any(c['assoc'] for c in model['classes']):
            break
    return {'check': ID, 'model_seed': mseed, 'nns': nns,
            'hist_seed': r.getrandbits(30), 'batch_seed': r.getrandbits(30),
            'interop': r.random() < 0.25,
            # statistics switched on for the connection under test (they must
            # not turn an accepted call into a failing one, and a call that
            # fails only because of them still must not change anything)
            'stats': r.random() < 0.3}


def simple_value(r, t, is_array=False):
    if is_array:
        return {'t': t, 'a': [simple_scalar(r, t)
                              for _ in range(r.choice([0, 1, 2]))]}
    return {'t': t, 'v': simple_scalar(r, t)}


def simple_scalar(r, t):
    if t == 'string':
        return r.choice(['abc', 'x y', 'Value1', ''])
    if t == 'char16':
        return 'a'
    if t == 'boolean':
        return r.random() < 0.5
    if t in mg.INT_TYPES:
        lo, hi = mg.int_range(t)
        return r.choice([0, 1, hi, lo])
    if t in ('real32', 'real64'):
        return r.choice([0.0, 1.5, -2.25])
    if t == 'datetime':
        return '20260925120000.000000+000'
    raise ValueError(t)


def c11_model(seed, nns=None):
    """The generated model, with a non-key, non-reference property in every
    association class (something ModifyInstance can change)."""
    model = mg.gen_model(seed, nns=nns, with_methods=False, max_inst=6)
    for c in model['classes']:
        if c['assoc'] and not c['super'] and \
                not any(p['name'] == 'Weight' for p in c['props']):
            c['props'].append({'name': 'Weight', 'type': 'uint16',
                               'key': False, 'array': False})
        if c['assoc'] and not c['super'] and \
                not any(p['type'] == 'reference' and not p.get('key')
                        for p in c['props']):
            # ... and a non-key reference (the only kind ModifyInstance may
            # retarget)
            roots = [x['name'] for x in model['classes']
                     if not x['assoc'] and not x['super']]
            name = 'Third' if not any(p['name'] == 'Third'
                                      for p in c['props']) else 'Fourth'
            c['props'].append({'name': name, 'type': 'reference',
                               'key': False, 'array': False,
                               'ref': roots[0]})
    model['seed'] = 'c11-%s-%s' % (seed, nns)
    return model


class State:
    """The starting state: a connection plus helpers to restore it."""

    def __init__(self, plan):
        self.model = c11_model(plan['model_seed'], plan.get('nns'))
        self.cmap = {c['name']: c for c in self.model['classes']}
        self.conn = mg.fresh_conn(self.model)
        r = random.Random(plan['hist_seed'])
        self.history(r)
        self.blob = pickle.dumps(self.conn.cimrepository._repository)  # noqa

    def history(self, r):
        c = self.conn
        m = self.model
        nss = m['namespaces']
        for _ in range(r.randint(2, 12)):
            k = r.random()
            ns = r.choice(nss)
            try:
                if k < 0.45:
                    # association instance without shadow copies
                    ac = [x for x in m['classes'] if x['assoc']]
                    a = r.choice(ac)
                    inst = self.assoc_instance(r, a, ns, cross=True)
                    if inst is not None:
                        inst.path = CIMInstanceName.from_instance(
                            c.GetClass(a['name'], namespace=ns,
                                       LocalOnly=False,
                                       IncludeQualifiers=True),
                            inst, namespace=ns)
                        c.add_cimobjects(inst, namespace=ns)
                elif k < 0.65:
                    a = r.choice([x for x in m['classes'] if x['assoc']])
                    inst = self.assoc_instance(r, a, ns, cross=r.random() < .5)
                    if inst is not None:
                        c.CreateInstance(inst, namespace=ns)
                elif k < 0.8:
                    paths = c.EnumerateInstanceNames(
                        r.choice([x for x in m['classes']
                                  if not x['super']])['name'], namespace=ns)
                    if paths:
                        c.DeleteInstance(r.choice(sorted(
                            paths, key=lambda p: p.to_wbem_uri())))
                else:
                    cl = r.choice([x for x in m['classes']
                                   if not x['assoc']])
                    props = {}
                    for p in mg.all_props(self.cmap, cl['name']):
                        if p['key']:
                            v = simple_value(r, p['type'])
                            if p['type'] == 'string':
                                v['v'] = 'h%d' % r.randrange(1000)
                            props[p['name']] = v
                    c.CreateInstance(mg.inst_to_cim(
                        {'cls': cl['name'], 'props': props}, cl),
                        namespace=ns)
            except Exception:  # pylint: disable=broad-except
                # (the history only produces a starting state; its calls
                # are not judged)
                pass

    def ends(self, ns, refcls):
        out = []
        for cl in self.model['classes']:
            if cl['assoc'] or not mg.is_subclass(self.cmap, cl['name'],
                                                 refcls):
                continue
            try:
                out += self.conn.EnumerateInstanceNames(cl['name'],
                                                        namespace=ns)
            except pywbem.Error:
                pass
        return sorted(set(out), key=lambda p: p.to_wbem_uri())

    def assoc_instance(self, r, a, ns, cross):
        props = []
        nss = self.model['namespaces']
        for p in mg.all_props(self.cmap, a['name']):
            if p['type'] == 'reference':
                ns2 = r.choice(nss) if cross else ns
                cands = self.ends(ns2, p['ref'])
                if not cands:
                    return None
                props.append(CIMProperty(p['name'], r.choice(cands),
                                         type='reference',
                                         reference_class=p['ref']))
            elif r.random() < 0.7:
                props.append(mg.prop_to_cim(
                    p['name'], simple_value(r, p['type'],
                                            p.get('array', False)), p))
        return CIMInstance(a['name'], properties=props)

    def restore(self):
        """A new connection holding the starting state (a new one, so that no
        connection-level cache of an earlier case survives)."""
        self.conn = mg.restore(self.blob)
        return self.conn


# --------------------------------------------------------------- batches
def gen_batch(r, st):
    """A batch of 2-8 valid new elements for namespace ns (list of dicts
    {'kind': 'q'|'c'|'i', 'obj': pywbem object})."""
    m = st.model
    ns = r.choice(m['namespaces'])
    n = r.randint(2, 8)
    els = []
    new_classes = []
    tag = r.randrange(1000)
    for j in range(n):
        k = r.random()
        if k < 0.2:
            q = CIMQualifierDeclaration(
                'BQ%d_%d' % (tag, j), r.choice(['string', 'uint32',
                                                'boolean']),
                is_array=False,
                scopes={s: (s in ('CLASS', 'PROPERTY')) for s in
                        ('CLASS', 'ASSOCIATION', 'INDICATION', 'PROPERTY',
                         'REFERENCE', 'METHOD', 'PARAMETER', 'ANY')},
                overridable=True, tosubclass=True, toinstance=False,
                translatable=False)
            els.append({'kind': 'q', 'obj': q})
        elif k < 0.6 or not (new_classes or True):
            plain = [c for c in m['classes'] if not c['assoc']]
            sup = r.choice([None] + [c['name'] for c in plain] +
                           [c.classname for c in new_classes])
            props = []
            if sup is None:
                props.append(CIMProperty('BK', None, type='string',
                                         qualifiers=[mg.mkqual('Key', True)]))
            props.append(CIMProperty('BP%d' % j, None,
                                     type=r.choice(['string', 'uint32',
                                                    'boolean']),
                                     qualifiers=[mg.mkqual('Description',
                                                           'batch')]))
            cl = CIMClass('BC%d_%d' % (tag, j), properties=props,
                          superclass=sup)
            new_classes.append(cl)
            els.append({'kind': 'c', 'obj': cl})
        else:
            plain = [c for c in m['classes'] if not c['assoc']]
            c = r.choice(plain)
            props = {}
            for p in mg.all_props(st.cmap, c['name']):
                if p['key']:
                    v = simple_value(r, p['type'])
                    if p['type'] == 'string':
                        v['v'] = 'b%d_%d' % (tag, j)
                    elif p['type'] in mg.INT_TYPES:
                        v['v'] = min(mg.int_range(p['type'])[1], 50 + j)
                    props[p['name']] = v
                elif p['type'] != 'reference' and r.random() < 0.4:
                    props[p['name']] = simple_value(
                        r, p['type'], p.get('array', False))
            inst = mg.inst_to_cim({'cls': c['name'], 'props': props}, c)
            try:
                klass = st.conn.GetClass(c['name'], namespace=ns,
                                         LocalOnly=False,
                                         IncludeQualifiers=True)
                inst.path = CIMInstanceName.from_instance(klass, inst,
                                                          namespace=ns)
            except (pywbem.Error, ValueError):
                continue
            # avoid duplicates inside the batch and with the state
            key = inst.path.to_wbem_uri('canonical')
            if any(e['kind'] == 'i' and
                   e['obj'].path.to_wbem_uri('canonical') == key
                   for e in els):
                continue
            try:
                st.conn.GetInstance(inst.path)
                continue
            except pywbem.Error:
                pass
            els.append({'kind': 'i', 'obj': inst})
    return ns, els


REASONS = {
    'q': ['parse_error', 'bad_value_type', 'duplicate_in_add'],
    'c': ['unknown_superclass', 'undeclared_qualifier', 'parse_error',
          'wrong_qualifier_type', 'unknown_reference_class',
          'duplicate_in_add', 'wrong_scope'],
    'i': ['unknown_class', 'undeclared_property', 'wrong_property_type',
          'duplicate_instance', 'parse_error', 'missing_key', 'no_path'],
}


def spoil(el, reason, st, ns):
    """(object-or-None, mof-text-or-None) of the invalid variant."""
    kind = el['kind']
    o = copy.deepcopy(el['obj'])
    if reason == 'parse_error':
        return None, o.tomof() + '\n this is not mof ;\n'
    if kind == 'q':
        if reason == 'bad_value_type':
            return None, o.tomof().replace(';', ' = {1, 2};', 1) \
                if o.type != 'string' else \
                o.tomof().replace(' : string', ' : string = 5', 1)
        if reason == 'duplicate_in_add':
            o.name = 'Key'
            return o, None
    if kind == 'c':
        if reason == 'unknown_superclass':
            o.superclass = 'NoSuchSuper'
        elif reason == 'undeclared_qualifier':
            o.qualifiers['NoSuchQual'] = CIMQualifier('NoSuchQual', 'x')
        elif reason == 'wrong_qualifier_type':
            o.qualifiers['Description'] = CIMQualifier(
                'Description', pywbem.Uint32(5), type='uint32')
        elif reason == 'wrong_scope':
            o.qualifiers['Key'] = mg.mkqual('Key', True)
        elif reason == 'unknown_reference_class':
            o.properties['BR'] = CIMProperty('BR', None, type='reference',
                                             reference_class='NoSuchRef')
        elif reason == 'duplicate_in_add':
            o.classname = [c['name'] for c in st.model['classes']][0]
        return o, o.tomof()
    if kind == 'i':
        if reason == 'unknown_class':
            o.classname = 'NoSuchClass'
            o.path.classname = 'NoSuchClass'
        elif reason == 'undeclared_property':
            o['Undeclared'] = 'x'
        elif reason == 'wrong_property_type':
            nk = [p for p in o.properties.values()
                  if p.name not in o.path.keybindings and not p.is_array
                  and p.type != 'string']
            if not nk:
                o['Undeclared2'] = pywbem.Uint8(1)
            else:
                n = nk[0].name
                del o.properties[n]
                o.properties[n] = CIMProperty(n, 'text', type='string')
        elif reason == 'duplicate_instance':
            names = None
            for c in st.model['classes']:
                if c['assoc'] or c['super']:
                    continue
                try:
                    names = st.conn.EnumerateInstances(c['name'],
                                                       namespace=ns)
                except pywbem.Error:
                    names = None
                if names:
                    break
            if not names:
                return None, None
            o = sorted(names, key=lambda i: i.path.to_wbem_uri())[0]
            o.path.host = None
        elif reason == 'missing_key':
            k = sorted(o.path.keybindings.keys())[0]
            del o.properties[k]
            mof = o.tomof()
            return None, mof
        elif reason == 'no_path':
            o.path = None
            return o, None
        return o, o.tomof()
    return None, None


def batch_mof(els, k=None, bad_mof=None):
    out = []
    for j, e in enumerate(els):
        if j == k:
            out.append(bad_mof)
        else:
            out.append(e['obj'].tomof())
    return '\n'.join(out) + '\n'


# ------------------------------------------------------------- execution
def execute(plan):
    warnings.simplefilter('ignore')
    V = []
    probes = {}
    faults = {}
    case_fps = []
    ncases = 0
    nraised = 0

    def viol(sig, msg):
        V.append({'sig': 'C11/' + sig, 'msg': msg})

    def bump(d, k, n=1):
        d[k] = d.get(k, 0) + n

    st = State(plan)
    r = random.Random(plan['batch_seed'])
    ns, els = gen_batch(r, st)
    state_d = digest(st.blob)

    def case(api, reason, kclass, fn, detail):
        """Run one enumerated case on a restored state."""
        nonlocal ncases, nraised
        conn = st.restore()
        if plan.get('stats'):
            conn.statistics.enable()
        before = mg.dump_repo(conn)
        ncases += 1
        try:
            fn(conn)
            raised = None
        except (pywbem.Error, ValueError, TypeError, OSError) as e:
            raised = e
        except Exception as e:  # pylint: disable=broad-except
            # (which exception types may escape is not part of C11)
            raised = e
            bump(probes, 'other_exception_%s/%s' % (api, type(e).__name__))
        bump(probes, 'case_%s' % api)
        if raised is None:
            bump(probes, 'accepted_%s/%s' % (api, reason))
            return
        nraised += 1
        bump(faults, '%s/%s' % (api.split('/')[0], reason))
        case_fps.append(digest((api, reason, kclass, state_d)))
        after = mg.dump_repo(conn)
        if after != before:
            added = [x[:2] for x in after if x not in before]
            removed = [x[:2] for x in before if x not in after]
            sig = 'batch-prefix-retained/' + api if api in (
                'compile_mof_string', 'compile_mof_file',
                'compile_schema_classes', 'add_cimobjects') and \
                kclass != 'single' else 'changed-after-failure/%s/%s' % (
                    api, reason)
            viol(sig, '%s raised %s (%s) at %s, but the repository changed: '
                 'added %s removed %s' % (api, type(raised).__name__,
                                          str(raised)[:200], detail,
                                          added[:6], removed[:6]))

    # ---- batch APIs: every position x every reason
    n = len(els)
    # (the unspoilt batch itself: must be accepted; judged like any other
    # case if it raises)
    case('add_cimobjects', 'valid_batch', 'all',
         lambda c: c.add_cimobjects([copy.deepcopy(e['obj']) for e in els],
                                    namespace=ns), 'valid batch of %d' % n)
    case('compile_mof_string', 'valid_batch', 'all',
         lambda c: c.compile_mof_string(batch_mof(els, None, None),
                                        namespace=ns), 'valid batch of %d' % n)
    for k in range(n):
        kclass = 'first' if k == 0 else ('last' if k == n - 1 else 'middle')
        for reason in REASONS[els[k]['kind']]:
            bad_obj, bad_mof = spoil(els[k], reason, st, ns)
            detail = 'batch of %d, element %d (%s) %s' % (
                n, k, els[k]['kind'], reason)
            if bad_mof is not None:
                mof = batch_mof(els, k, bad_mof)
                case('compile_mof_string', reason, kclass,
                     lambda c, mof=mof: c.compile_mof_string(
                         mof, namespace=ns), detail)
                fn = os.path.join(_tmpdir(), 'b%d.mof' % os.getpid())
                with open(fn, 'w', encoding='utf-8') as f:
                    f.write(mof)
                case('compile_mof_file', reason, kclass,
                     lambda c, fn=fn: c.compile_mof_file(fn, namespace=ns),
                     detail)
            if bad_obj is not None:
                objs = [copy.deepcopy(e['obj']) for e in els]
                objs[k] = bad_obj
                case('add_cimobjects', reason, kclass,
                     lambda c, objs=objs: c.add_cimobjects(objs,
                                                           namespace=ns),
                     detail)
        # include structure: element k lives in an included file that is
        # missing
        mof = batch_mof(els, k, '#pragma include ("missing_%d.mof")' % k)
        case('compile_mof_string', 'missing_include', kclass,
             lambda c, mof=mof: c.compile_mof_string(
                 mof, namespace=ns, search_paths=[_tmpdir()]),
             'batch of %d, element %d replaced by a missing include' % (n, k))
    # ---- compile_schema_classes on a tiny schema directory
    classes = [e['obj'] for e in els if e['kind'] == 'c']
    if classes:
        sdir = os.path.join(_tmpdir(), 'schema%d' % os.getpid())
        shutil.rmtree(sdir, True)
        os.makedirs(sdir)
        quals = '\n'.join(q.tomof() for q in mg.qualifier_decls()) + '\n' + \
            '\n'.join(e['obj'].tomof() for e in els if e['kind'] == 'q')
        with open(os.path.join(sdir, 'qualifiers.mof'), 'w') as f:
            f.write(quals)
        bad = len(classes) - 1
        names = []
        with open(os.path.join(sdir, 'schema.mof'), 'w') as f:
            f.write('#pragma include ("qualifiers.mof")\n')
            for j, cl in enumerate(classes):
                names.append(cl.classname)
                f.write('#pragma include ("%s.mof")\n' % cl.classname)
                with open(os.path.join(sdir, cl.classname + '.mof'),
                          'w') as g:
                    txt = cl.tomof()
                    if j == bad:
                        txt = txt.replace('{', ': NoSuchSuper {', 1) \
                            if cl.superclass is None else \
                            txt + '\n garbage ;\n'
                    g.write(txt)
        case('compile_schema_classes', 'bad_last_class',
             'last' if len(classes) > 1 else 'single',
             lambda c: c.compile_schema_classes(
                 names, os.path.join(sdir, 'schema.mof'), namespace=ns),
             'schema of %d classes, last one invalid' % len(classes))
    # ---- single-object operations, every documented rejection reason
    m = st.model
    plain = [c for c in m['classes'] if not c['assoc']]
    withsub = [c for c in m['classes']
               if any(x['super'] == c['name'] for x in m['classes'])]
    leaf = [c for c in plain if c not in withsub]
    some = r.choice(plain)
    new_cl = CIMClass('SC1', properties=[CIMProperty(
        'k', None, type='string', qualifiers=[mg.mkqual('Key', True)])])

    def single(api, reason, fn):
        case(api, reason, 'single', fn, 'single call')

    for cl, reason in ((CIMClass('SC2', superclass='NoSuch'),
                        'unknown_superclass'),
                       (mg.class_to_cim(some), 'duplicate'),
                       (CIMClass('SC3', qualifiers=[CIMQualifier(
                           'NoSuchQ', 'x')]), 'undeclared_qualifier'),
                       (CIMClass('SC4', properties=[CIMProperty(
                           'r', None, type='reference',
                           reference_class='NoSuch')]),
                        'unknown_reference_class')):
        single('CreateClass', reason,
               lambda c, cl=cl: c.CreateClass(cl, namespace=ns))
    single('CreateClass', 'unknown_namespace',
           lambda c: c.CreateClass(new_cl, namespace='no/such'))
    single('ModifyClass', 'not_found',
           lambda c: c.ModifyClass(new_cl, namespace=ns))
    if withsub:
        wc = mg.class_to_cim(withsub[0])
        wc.properties['Extra'] = CIMProperty('Extra', None, type='string')
        single('ModifyClass', 'has_subclasses',
               lambda c: c.ModifyClass(wc, namespace=ns))
    mc = mg.class_to_cim(some)
    mc.superclass = 'NoSuch'
    single('ModifyClass', 'unknown_superclass',
           lambda c: c.ModifyClass(mc, namespace=ns))
    mc2 = mg.class_to_cim(some)
    mc2.qualifiers['NoSuchQ'] = CIMQualifier('NoSuchQ', 'x')
    single('ModifyClass', 'undeclared_qualifier',
           lambda c: c.ModifyClass(mc2, namespace=ns))
    single('DeleteClass', 'not_found',
           lambda c: c.DeleteClass('NoSuch', namespace=ns))
    single('DeleteClass', 'unknown_namespace',
           lambda c: c.DeleteClass(some['name'], namespace='no/such'))
    # DeleteClass removes the instances through their providers: a user
    # defined provider that refuses the k-th deletion
    for cdesc in plain[:3]:
        for k in (1, 2, 3):
            def delete_with_provider(c, cn=cdesc['name'], k=k):
                c.register_provider(RejectingProvider(c.cimrepository, cn, k),
                                    namespaces=[ns])
                c.DeleteClass(cn, namespace=ns)
            single('DeleteClass', 'provider_rejects_%s_instance' % (
                'first' if k == 1 else 'later'), delete_with_provider)
    single('DeleteQualifier', 'not_found',
           lambda c: c.DeleteQualifier('NoSuchQ', namespace=ns))
    single('DeleteQualifier', 'in_use',
           lambda c: c.DeleteQualifier('Key', namespace=ns))
    single('SetQualifier', 'unknown_namespace',
           lambda c: c.SetQualifier(mg.qualifier_decls()[0],
                                    namespace='no/such'))
    single('add_namespace', 'exists',
           lambda c: c.add_namespace(ns))
    single('remove_namespace', 'not_empty',
           lambda c: c.remove_namespace(ns))
    single('remove_namespace', 'not_found',
           lambda c: c.remove_namespace('no/such'))
    # instance operations (incl. associations spanning namespaces)
    conn = st.restore()
    allinst = []
    for ns2 in m['namespaces']:
        for c in m['classes']:
            if c['super']:
                continue
            try:
                allinst += conn.EnumerateInstances(c['name'], namespace=ns2)
            except pywbem.Error:
                pass
    allinst.sort(key=lambda i: i.path.to_wbem_uri())
    if allinst:
        ai = [i for i in allinst
              if st.cmap.get(i.classname, {}).get('assoc')]
        pi = [i for i in allinst if i not in ai]
        for inst in ai[:8] + r.sample(pi, min(3, len(pi))):
            p = inst.path.copy()
            p.host = None
            dup = CIMInstance(inst.classname, properties=copy.deepcopy(
                list(inst.properties.values())))
            single('CreateInstance', 'duplicate',
                   lambda c, dup=dup, p=p: c.CreateInstance(
                       dup, namespace=p.namespace))
            bad = copy.deepcopy(inst)
            bad['Undeclared'] = 'x'
            single('ModifyInstance', 'undeclared_property',
                   lambda c, bad=bad: c.ModifyInstance(bad))
            isassoc = st.cmap.get(inst.classname, {}).get('assoc')
            if isassoc:
                # retarget one reference to an end point that does not
                # exist / lives in a namespace without a copy
                for pn, pv in inst.properties.items():
                    if pv.type != 'reference' or pv.value is None:
                        continue
                    gone = copy.deepcopy(inst)
                    tgt = pv.value.copy()
                    for kk in tgt.keybindings:
                        if isinstance(tgt.keybindings[kk], str):
                            tgt.keybindings[kk] = 'gone'
                    if pn in inst.path.keybindings:
                        continue
                    gone.properties[pn].value = tgt
                    single('ModifyInstance', 'assoc_end_missing',
                           lambda c, gone=gone: c.ModifyInstance(gone))
                    # retarget to an existing instance in a namespace where
                    # the association has no copy yet
                    named = {v2.value.namespace.lower()
                             for v2 in inst.properties.values()
                             if v2.type == 'reference' and
                             v2.value is not None and v2.value.namespace}
                    named.add(inst.path.namespace.lower())
                    refcls = pv.reference_class or pv.value.classname
                    far = [x.path for x in allinst
                           if x.path.namespace.lower() not in named and
                           x.classname in st.cmap and
                           mg.is_subclass(st.cmap, x.classname, refcls)]
                    if far:
                        moved = copy.deepcopy(inst)
                        tp = far[0].copy()
                        tp.host = None
                        moved.properties[pn].value = tp
                        single('ModifyInstance', 'assoc_retarget_no_copy',
                               lambda c, moved=moved: c.ModifyInstance(
                                   moved))
                if 'Weight' not in inst.properties and \
                        'Weight' in [p['name'] for p in mg.all_props(
                            st.cmap, inst.classname)]:
                    inst = copy.deepcopy(inst)
                    inst.properties['Weight'] = CIMProperty(
                        'Weight', None, type='uint16')
                for nk in [n2 for n2, pv in inst.properties.items()
                           if pv.type not in ('reference',)
                           and n2 not in inst.path.keybindings]:
                    mod = copy.deepcopy(inst)
                    pv = mod.properties[nk]
                    if pv.type == 'uint16' and not pv.is_array:
                        pv.value = pywbem.Uint16(
                            42 if pv.value != 42 else 43)
                    single('ModifyInstance', 'assoc_other_ns_copy',
                           lambda c, mod=mod: c.ModifyInstance(mod))
                    break
                # create it again through CreateInstance (shadow handling)
                again = CIMInstance(inst.classname, properties=copy.deepcopy(
                    list(inst.properties.values())))
                for ns3 in m['namespaces']:
                    single('CreateInstance', 'assoc_exists_somewhere',
                           lambda c, again=again, ns3=ns3: c.CreateInstance(
                               copy.deepcopy(again), namespace=ns3))
            wrong = copy.deepcopy(inst)
            nk = [n2 for n2, pv in wrong.properties.items()
                  if n2 not in wrong.path.keybindings
                  and pv.type not in ('string', 'reference')]
            if nk:
                n2 = nk[0]
                ia = wrong.properties[n2].is_array
                del wrong.properties[n2]
                wrong.properties[n2] = CIMProperty(n2, None, type='string',
                                                   is_array=ia)
                single('ModifyInstance', 'wrong_property_type',
                       lambda c, wrong=wrong: c.ModifyInstance(wrong))
            kc = copy.deepcopy(inst)
            ks = [k2 for k2, v in kc.path.keybindings.items()
                  if isinstance(v, str) and
                  not isinstance(v, pywbem.CIMDateTime)]
            if ks:
                kc.properties[ks[0]] = CIMProperty(ks[0], 'changed')
                kc.path = p.copy()
                single('ModifyInstance', 'key_change',
                       lambda c, kc=kc: c.ModifyInstance(kc))
            nf = p.copy()
            for kk in nf.keybindings:
                if isinstance(nf.keybindings[kk], str) and not isinstance(
                        nf.keybindings[kk], pywbem.CIMDateTime):
                    nf.keybindings[kk] = 'nope'
            if nf != p:
                single('DeleteInstance', 'not_found',
                       lambda c, nf=nf: c.DeleteInstance(nf))
                g = copy.deepcopy(inst)
                g.path = nf
                single('ModifyInstance', 'not_found',
                       lambda c, g=g: c.ModifyInstance(g))
    some_inst_cls = r.choice(plain)
    single('CreateInstance', 'unknown_class',
           lambda c: c.CreateInstance(CIMInstance('NoSuch', {'k': 'x'}),
                                      namespace=ns))
    single('CreateInstance', 'unknown_namespace',
           lambda c: c.CreateInstance(CIMInstance(
               some_inst_cls['name'], {'k': 'x'}), namespace='no/such'))
    single('CreateInstance', 'missing_key',
           lambda c: c.CreateInstance(CIMInstance(some_inst_cls['name']),
                                      namespace=ns))
    # ---- namespace provider (Interop server)
    if plan.get('interop'):
        ic = interop.fresh()
        ic.add_namespace('root/userns')
        ic.compile_mof_string(
            'Qualifier Key : boolean = false, Scope(property, reference), '
            'Flavor(DisableOverride, ToSubclass);\n'
            'class UX { [Key] string k; };\ninstance of UX { k = "1"; };\n',
            namespace='root/userns')
        # a namespace that was removed again through the connection: its
        # CIM_Namespace instance stays behind
        ic.add_namespace('root/stale')
        ic.remove_namespace('root/stale')
        iblob = pickle.dumps(ic.cimrepository._repository)  # noqa

        def icase(api, reason, fn):
            nonlocal ncases, nraised
            ic.cimrepository._repository = pickle.loads(iblob)  # noqa
            before = mg.dump_repo(ic)
            ncases += 1
            try:
                fn(ic)
                bump(probes, 'accepted_%s/%s' % (api, reason))
                return
            except (pywbem.Error, ValueError, TypeError) as e:
                raised = e
            except Exception as e:  # pylint: disable=broad-except
                raised = e
                bump(probes, 'other_exception_%s/%s' % (
                    api, type(e).__name__))
            nraised += 1
            bump(faults, '%s/%s' % (api, reason))
            case_fps.append(digest((api, reason, 'interop')))
            after = mg.dump_repo(ic)
            if after != before:
                viol('changed-after-failure/%s/%s' % (api, reason),
                     '%s raised %r but the repository changed: added %s '
                     'removed %s' % (api, raised,
                                     [x[:2] for x in after
                                      if x not in before][:5],
                                     [x[:2] for x in before
                                      if x not in after][:5]))
        for name in ('interop', 'root/interop', 'root/PG_InterOp',
                     'root/userns', 'INTEROP'):
            icase('add_namespace(interop server)', 'exists_or_second_interop'
                  if name != 'root/userns' else 'exists',
                  lambda c, name=name: c.add_namespace(name))
        icase('remove_namespace(interop server)', 'not_empty',
              lambda c: c.remove_namespace('root/userns'))
        icase('remove_namespace(interop server)', 'interop_itself',
              lambda c: c.remove_namespace('interop'))
        icase('remove_namespace(interop server)', 'not_found',
              lambda c: c.remove_namespace('no/such'))
        nsinsts = ic.EnumerateInstances('CIM_Namespace', namespace='interop')
        if nsinsts:
            proto = nsinsts[0]
            for name in ('root/interop', 'interop', 'root/userns'):
                ni = CIMInstance(proto.classname, properties=copy.deepcopy(
                    list(proto.properties.values())))
                ni['Name'] = name
                icase('CreateInstance(CIM_Namespace)',
                      'second_interop_or_exists',
                      lambda c, ni=ni: c.CreateInstance(ni,
                                                        namespace='interop'))
            for drop in ('CreationClassName', 'SystemName',
                         'ObjectManagerName'):
                ni = CIMInstance(proto.classname, properties=copy.deepcopy(
                    list(proto.properties.values())))
                ni['Name'] = 'root/brandnew'
                if drop in ni.properties:
                    del ni.properties[drop]
                    icase('CreateInstance(CIM_Namespace)', 'missing_key',
                          lambda c, ni=ni: c.CreateInstance(
                              ni, namespace='interop'))
            # the namespace of a left-over CIM_Namespace instance is created
            # again
            ni = CIMInstance(proto.classname, properties=copy.deepcopy(
                list(proto.properties.values())))
            ni['Name'] = 'root/stale'
            icase('CreateInstance(CIM_Namespace)',
                  'instance_exists_namespace_gone',
                  lambda c, ni=ni: c.CreateInstance(ni, namespace='interop'))
            icase('add_namespace', 'instance_exists_namespace_gone',
                  lambda c: c.add_namespace('root/stale'))
            # DeleteClass of a class one of whose instances may not be
            # deleted (the provider rejects the Interop namespace itself)
            icase('DeleteClass(CIM_Namespace)', 'instance_not_deletable',
                  lambda c: c.DeleteClass('CIM_Namespace',
                                          namespace='interop'))
            # a compile whose first production creates a namespace (through
            # the CIM_Namespace provider) and whose second production fails
            ni = CIMInstance(proto.classname, properties=copy.deepcopy(
                list(proto.properties.values())))
            ni['Name'] = 'root/viacompile'
            ni.path = None
            for tail, reason in (('\n this is not mof ;\n', 'parse_error'),
                                 ('\ninstance of NoSuchClass { k = 1; };\n',
                                  'unknown_class')):
                mof = ni.tomof() + tail
                icase('compile_mof_string(namespace instance first)', reason,
                      lambda c, mof=mof: c.compile_mof_string(
                          mof, namespace='interop'))
            for x in nsinsts:
                if x['Name'] == 'root/userns':
                    icase('DeleteInstance(CIM_Namespace)', 'not_empty',
                          lambda c, x=x: c.DeleteInstance(x.path))
    seen = set()
    out = []
    for v in V:
        if v['sig'] not in seen:
            seen.add(v['sig'])
            out.append(v)
    return {'violations': out, 'fingerprint': digest((state_d, ncases,
                                                      nraised)),
            'nontrivial': nraised >= 1, 'probes': probes, 'faults': faults,
            'sim_seconds': 0.0, 'steps': ncases, 'evaluations': ncases,
            'case_fingerprints': case_fps}


def sample(plan, res):
    return {'plan': plan, 'enumerated_cases': res['evaluations']}


def shrink_candidates(plan):
    if plan.get('interop'):
        p = copy.deepcopy(plan)
        p['interop'] = False
        yield p
