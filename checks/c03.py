"""C03 (narrow claim) - everything pywbem puts on the wire is well-formed,
DTD-valid CIM-XML with matching CIM headers.  Only the clauses observable at
the simulator's transport seam are claimed: request bodies and CIM headers
sent by WBEMConnection operations (the listener's responses are validated in
C17).  The search dimension is operation programs and argument values."""
import copy
import uuid

import pywbem

from simkit import modelgen as mg, opgen, wire, wbemserver, wirecheck
from simkit.prng import stream, digest
from checks.c04 import _Ids

ID = 'C03'
LEVEL = 'exploration'
TIERS = {'quick': {'runs': 8000, 'budget_s': 60, 'models': 48},
         'thorough': {'runs': 10 ** 9, 'budget_s': 400, 'models': 2000}}
RUN_WALL = 120
RULE = ('each run = generated repository + 2-8 operation calls over all '
        'public operation methods with arguments of every accepted shape, '
        'where string leaves (class names, namespaces, key and property '
        'values, property lists, roles, queries, method and parameter names) '
        'are replaced by adversarial strings (C0 controls, NUL, lone '
        'surrogates, U+FFFE/U+FFFF, "]]>", quotes and markup, blanks, '
        'slashes, non-ASCII, very long) with probability 0.25; every request '
        'that reaches the simulated socket is validated; non-trivial = at '
        'least 2 requests reached the wire and at least one adversarial '
        'string was used; distinct = digest of (operation, sent/failed '
        'locally, problem kinds)')
COMPONENTS = {
    'real': ['pywbem/_listener.py responses (listener world, 20% of runs)',
             'WBEMConnection operation methods, _iparam_*, _imethodcall, '
             '_methodcall, _cim_xml, _cim_obj.tocimxml, _cim_http',
             'requests/urllib3/http.client', 'lxml XML parser + DTD validator '
             'with tests/dtd/DSP0203_2.3.1.dtd'],
    'stub': ['simulated socket', 'SimWBEMServer (only to answer)']}
ASSUMPTIONS = [
    'narrow claim: tocimxml()/tocimxmlstr() of arbitrary objects (a pure '
    'function) is not claimed; no schedule or fault matters here, the '
    'observation point is the transport seam',
    'a call that fails locally with any exception before a byte is sent '
    'satisfies the property']

URL = 'http://FakedUrl:5988'
ADV_VALUES = ['a\x01b', 'nul\x00', '\x0b', '\x1f', 'sur\ud800rogate',
              '\udc00', '￾', '￿', ']]>', 'a\rb', '\x7f', '\x85',
              '\xe9', '\U0001F600', '<x a="1">&amp;</x>', ' ', '',
              '<![CDATA[x]]>', '&#1;', '\x1b[0m', 'tab\there', '﻿bom']
ADV_NAMES = ['C 0', '\xc70', 'C0\x01', 'a"b', "a'b", 'a<b', 'a&b',
             'ns/with//slash', '', 'x' * 300, 'C0.K', 'C0:K', 'C0,K=1',
             '日本', ' lead', 'trail ', '\ud800', 'C0\n', '/x/',
             '%41', 'a\\b', '\x00']


def adversarial(op, r, p=0.25):
    """Returns (op', n_replaced)."""
    n = [0]

    def val():
        n[0] += 1
        return r.choice(ADV_VALUES)

    def nam():
        n[0] += 1
        return r.choice(ADV_NAMES)

    def hit():
        return r.random() < p

    def walk_value(vs):
        if vs.get('t') in ('string', 'char16'):
            if 'a' in vs and vs['a']:
                vs['a'] = [val() if (x is not None and hit()) else x
                           for x in vs['a']]
            elif vs.get('v') is not None and hit():
                vs['v'] = val()
        elif vs.get('t') == 'reference' and isinstance(vs.get('v'), dict):
            walk_path(vs['v'])

    def walk_path(ps):
        if hit():
            ps['cls'] = nam()
        if ps.get('ns') is not None and hit():
            ps['ns'] = nam()
        keys = {}
        for k, v in ps['keys'].items():
            walk_value(v)
            keys[nam() if hit() else k] = v
        ps['keys'] = keys

    def walk(x, key=None):
        if isinstance(x, dict):
            if '$path' in x:
                walk_path(x['$path'])
                return x
            if '$cname' in x:
                if hit():
                    x['$cname'] = nam()
                if x.get('ns') is not None and hit():
                    x['ns'] = nam()
                return x
            if '$inst' in x:
                props = {}
                for k, v in x['$inst']['props'].items():
                    walk_value(v)
                    props[nam() if hit() else k] = v
                x['$inst']['props'] = props
                if hit():
                    x['$inst']['cls'] = nam()
                if x.get('path'):
                    walk_path(x['path'])
                return x
            if '$val' in x:
                walk_value(x['$val'])
                return x
            if '$params' in x or '$cimparams' in x:
                kk = '$params' if '$params' in x else '$cimparams'
                for pr in x[kk]:
                    walk_value(pr[1])
                    if hit():
                        pr[0] = nam()
                return x
            if '$class' in x:
                cd = x['$class']
                if hit():
                    cd['name'] = nam()
                for pd in cd['props']:
                    if hit():
                        pd['name'] = nam()
                return x
            if '$qual' in x:
                if hit():
                    x['name'] = nam()
                return x
            return x
        if isinstance(x, list) and key == 'PropertyList':
            return [nam() if hit() else e for e in x]
        if isinstance(x, str) and hit():
            return nam() if key not in ('Query', 'FilterQuery') else val()
        return x

    op = copy.deepcopy(op)
    if 'a' in op:
        out = {}
        for k, v in op['a'].items():
            nv = walk(v, k)
            # keyword names of InvokeMethod parameters
            out[k] = nv
        op['a'] = out
    if 'p' in op:
        op['p'] = [walk(v, 'pos') for v in op['p']]
    return op, n[0]


def gen_plan(run_seed, tier, index):
    r = stream(run_seed, 'plan')
    mseed = r.randrange(TIERS[tier]['models'])
    model = mg.gen_model(mseed)
    dn = r.choice([None, None] + model['namespaces'] +
                  ['my ns', '日本/ns', 'ns\x01'])
    n = r.randint(2, 8)
    ops = opgen.gen_program(stream(run_seed, 'ops'), model,
                            'root/cimv2', n, with_export=True)
    ar = stream(run_seed, 'adv')
    nadv = 0
    out = []
    for op in ops:
        o2, k = adversarial(op, ar)
        nadv += k
        out.append(o2)
    plan = {'check': ID, 'model_seed': mseed, 'default_ns': dn, 'ops': out,
            'nadv': nadv, 'ids_seed': r.getrandbits(32)}
    if r.random() < 0.2:
        # the clause about the listener's responses: a request sequence for
        # the listener world (same generator and oracle as C17)
        from checks import c17
        plan['listener'] = c17.gen_plan(run_seed, tier, index)
    return plan


def execute(plan):
    model = mg.gen_model(plan['model_seed'])
    dn = plan['default_ns']
    kw = {} if dn is None else {'default_namespace': dn}
    saved_uuid4 = uuid.uuid4
    uuid.uuid4 = _Ids(plan['ids_seed'])
    V = []
    probes = {}
    trace = []
    nsent = 0

    def viol(sig, msg):
        V.append({'sig': 'C03/' + sig, 'msg': msg})

    def bump(k, n=1):
        probes[k] = probes.get(k, 0) + n

    try:
        conn_s = mg.fresh_conn(model)
        mg.enable_query(conn_s)     # stub query engine (see modelgen)
        opgen.register_echo(conn_s, model)
        server = wbemserver.SimWBEMServer(conn_s)
        net = wire.Net(server).install()
        try:
            try:
                conn = pywbem.WBEMConnection(URL, **kw)
            except Exception as e:  # pylint: disable=broad-except
                bump('connection_rejected_' + type(e).__name__)
                return {'violations': [], 'fingerprint': digest(['ctor']),
                        'nontrivial': False, 'probes': probes, 'faults': {},
                        'sim_seconds': 0.0, 'steps': 0}
            results = []
            for i, op in enumerate(plan['ops']):
                nex0 = len(net.exchanges)
                try:
                    res = opgen.call(conn, op, results)
                except Exception as e:  # pylint: disable=broad-except
                    # building the arguments themselves failed (pywbem object
                    # constructors rejected the adversarial value)
                    res = ('exc', e)
                results.append(res)
                exs = net.exchanges[nex0:]
                kinds = []
                for ex in exs:
                    nsent += 1
                    probs = wirecheck.validate_request(ex['request'])
                    for kind, detail in probs:
                        kinds.append(kind)
                        sig = kind
                        if kind == 'dtd-invalid':
                            if ' ANY ' in detail or 'attribute ANY' in detail:
                                sig = 'dtd-invalid/SCOPE-ANY'
                            else:
                                sig = 'dtd-invalid/%s/%s' % (
                                    op['op'], detail.split(' | ')[0])
                        elif kind == 'not-wellformed':
                            if 'Char' in detail or 'char' in detail:
                                sig = 'not-wellformed/invalid-xml-char'
                            else:
                                sig = 'not-wellformed/' + op['op']
                        elif kind == 'attr-whitespace':
                            sig = 'header-body-mismatch/attribute-whitespace'
                        viol(sig, 'op #%d %s %r: request on the wire is %s: '
                             '%s\n  body: %r' %
                             (i, op['op'], op, kind, detail,
                              ex['request'].partition(b'\r\n\r\n')[2][:1500]))
                if exs:
                    bump('sent_' + op['op'])
                elif res[0] == 'exc':
                    bump('failed_locally_' + type(res[1]).__name__)
                trace.append((op['op'], len(exs), tuple(kinds)))
        finally:
            net.uninstall()
    finally:
        uuid.uuid4 = saved_uuid4
    if plan.get('listener'):
        from checks import c17
        lres = c17.execute(plan['listener'])
        bump('listener_runs')
        trace.append(('listener', lres['fingerprint']))
        for v in lres['violations']:
            if v['sig'].startswith(('C17/response-not', 'C17/malformed-'
                                    'response', 'C17/header-crlf')):
                viol('listener-' + v['sig'][4:], v['msg'])
    seen = set()
    out = []
    for v in V:
        if v['sig'] not in seen:
            seen.add(v['sig'])
            out.append(v)
    return {'violations': out, 'fingerprint': digest(trace),
            'nontrivial': nsent >= 2 and plan.get('nadv', 0) >= 1,
            'probes': probes, 'faults': {}, 'sim_seconds': 0.0,
            'steps': len(plan['ops'])}


def sample(plan, res):
    return {'model_seed': plan['model_seed'], 'default_ns': plan['default_ns'],
            'ops': plan['ops'][:4], 'n_ops': len(plan['ops'])}


def shrink_candidates(plan):
    n = len(plan['ops'])
    for i in range(n - 1, -1, -1):
        p = copy.deepcopy(plan)
        del p['ops'][i]
        for o in p['ops']:
            for a in o.get('p', []):
                if isinstance(a, dict) and '$ctx' in a and a['$ctx'] >= i:
                    a['$ctx'] = a['$ctx'] - 1 if a['$ctx'] > i else -1
        yield p
    for i, o in enumerate(plan['ops']):
        for k in list(o.get('a', {})):
            if k in ('ClassName', 'InstanceName', 'ObjectName', 'NewInstance',
                     'ModifiedInstance', 'NewClass', 'ModifiedClass',
                     'QualifierDeclaration', 'QualifierName',
                     'FilterQueryLanguage', 'FilterQuery', 'QueryLanguage',
                     'Query'):
                continue
            p = copy.deepcopy(plan)
            del p['ops'][i]['a'][k]
            yield p
    if plan['default_ns'] is not None:
        p = copy.deepcopy(plan)
        p['default_ns'] = None
        yield p
    if plan.get('listener'):
        p = copy.deepcopy(plan)
        del p['listener']
        yield p
        from checks import c17
        for lp in c17.shrink_candidates(plan['listener']):
            p = copy.deepcopy(plan)
            p['listener'] = lp
            yield p
