"""C02 - bad server responses surface only as documented pywbem errors.
Real WBEMConnection + requests + urllib3 + http.client on the simulated
socket; the simulated server produces a plausible reply which the fault layer
(simkit.replyfaults) then damages at transport, HTTP, byte or structure
level."""
import copy
import uuid
import signal
import traceback

import pywbem
from pywbem import (CIMInstance, CIMInstanceName, CIMClass, CIMClassName,
                    CIMQualifierDeclaration)

from simkit import modelgen as mg, opgen, wire, wbemserver, replyfaults as rf
from simkit.prng import stream, digest
from checks.c04 import _Ids

ID = 'C02'
LEVEL = 'exploration'
TIERS = {'quick': {'runs': 32000, 'budget_s': 60, 'models': 48},
         'thorough': {'runs': 10 ** 9, 'budget_s': 600, 'models': 2000}}
RUN_WALL = 120
CALL_WALL = 20
RULE = ('each run = generated repository + 1-6 operation calls with valid '
        'arguments (all public WBEMConnection operations); for 1-3 of the '
        'HTTP exchanges the plausible reply of the simulated server is '
        'replaced by a faulted one (transport: refuse/reset/EOF/stall/'
        'fragmentation; HTTP: status, headers, chunking, encodings; body: '
        'byte corruption, structure-aware mutation of the CIM-XML tree, '
        'arbitrary ERROR elements, foreign documents); non-trivial = at '
        'least one fault fired on an exchange; distinct = digest of '
        '(operation, fault kind, outcome class, reply digest) sequence')
COMPONENTS = {
    'real': ['WBEMConnection and all operation methods', '_cim_http',
             'requests, urllib3, http.client', '_tupletree, _tupleparse, '
             '_cim_obj'],
    'stub': ['simulated socket', 'SimWBEMServer (only to obtain a plausible '
             'reply)', 'reply fault layer']}
ASSUMPTIONS = [
    'exceptions raised before any byte was exchanged (argument validation) '
    'are outside this property', 'replies <= ~100 KiB, injected nesting '
    'depth <= 200']

URL = 'http://FakedUrl:5988'


class _Hang(BaseException):
    pass


def _alarm(signum, frame):
    raise _Hang()


def gen_plan(run_seed, tier, index):
    r = stream(run_seed, 'plan')
    mseed = r.randrange(TIERS[tier]['models'])
    model = mg.gen_model(mseed)
    dn = r.choice([None, None] + model['namespaces'])
    n = r.randint(1, 6)
    ops = opgen.gen_program(stream(run_seed, 'ops'), model,
                            dn or 'root/cimv2', n, valid_only=True,
                            with_export=True)
    fr = stream(run_seed, 'faults')
    faults = []
    nf = fr.choice([1, 1, 1, 2, 3])
    for _ in range(nf):
        f = rf.gen_fault(fr) if fr.random() > 0.04 else \
            {'kind': 'refuse', 'times': fr.choice([1, 2, 3, 5]), 'seed': 0}
        f['op'] = fr.randrange(n)
        f['x'] = fr.choice([0, 0, 0, 1, 2])
        faults.append(f)
    if fr.random() < 0.04:
        # focus: the response of an open with a query result class (rare in
        # the general mix) is the one that is damaged structurally
        k = faults[0]['op']
        ops[k] = {'op': 'OpenQueryInstances', 'a': {
            'FilterQueryLanguage': 'DMTF:FQL',
            'FilterQuery': 'SELECT * FROM %s' % model['classes'][0]['name'],
            'ReturnQueryResultClass': True,
            'MaxObjectCount': fr.choice([1, 100])}}
        faults[0] = dict(rf.gen_fault(fr), kind='struct', op=k, x=0)
    return {'check': ID, 'model_seed': mseed, 'default_ns': dn, 'ops': ops,
            'faults': faults, 'ids_seed': fr.getrandbits(32),
            'timeout': r.choice([None, 5, 30]),
            'creds': r.choice([None, ['user', 'pw']])}


# ------------------------------------------------------ result type table
def _is_path(p, need_ns=True):
    return isinstance(p, CIMInstanceName) and \
        (not need_ns or isinstance(p.namespace, str))


def _insts_with_path(v):
    return isinstance(v, list) and all(
        isinstance(i, CIMInstance) and _is_path(i.path) for i in v)


def _insts(v):
    return isinstance(v, list) and all(isinstance(i, CIMInstance) for i in v)


def _paths(v):
    return isinstance(v, list) and all(_is_path(p) for p in v)


def _assoc_objs(v):
    return isinstance(v, list) and (
        all(isinstance(i, CIMInstance) and _is_path(i.path) for i in v) or
        all(isinstance(t, tuple) and len(t) == 2 and
            isinstance(t[0], CIMClassName) and isinstance(t[1], CIMClass)
            for t in v))


def _assoc_names(v):
    return isinstance(v, list) and (
        all(_is_path(p) for p in v) or
        all(isinstance(p, CIMClassName) for p in v))


def _pull(field, pred):
    def chk(v):
        if not (hasattr(v, 'eos') and hasattr(v, 'context')):
            return False
        if not isinstance(v.eos, bool):
            return False
        c = v.context
        if c is not None and not (isinstance(c, tuple) and len(c) == 2 and
                                  isinstance(c[0], str) and
                                  isinstance(c[1], str)):
            return False
        if v.eos and c is not None:
            return False
        if hasattr(v, 'query_result_class') and not isinstance(
                v.query_result_class, (CIMClass, type(None))):
            return False
        return pred(getattr(v, field))
    return chk


def _none(v):
    return v is None


def _invoke(v):
    return isinstance(v, tuple) and len(v) == 2 and hasattr(v[1], 'keys')


def _iterquery(v):
    return isinstance(v, tuple) and v[0] == 'iterquery' and \
        (v[1] is None or isinstance(v[1], CIMClass)) and _insts(v[2])


RESULT_OK = {
    'EnumerateInstances': _insts_with_path,
    'EnumerateInstanceNames': _paths,
    'GetInstance': lambda v: isinstance(v, CIMInstance) and _is_path(v.path),
    'ModifyInstance': _none, 'DeleteInstance': _none,
    'CreateInstance': _is_path,
    'Associators': _assoc_objs, 'References': _assoc_objs,
    'AssociatorNames': _assoc_names, 'ReferenceNames': _assoc_names,
    'InvokeMethod': _invoke, 'ExecQuery': _insts,
    'IterEnumerateInstances': _insts_with_path,
    'IterAssociatorInstances': _insts_with_path,
    'IterReferenceInstances': _insts_with_path,
    'IterEnumerateInstancePaths': _paths,
    'IterAssociatorInstancePaths': _paths,
    'IterReferenceInstancePaths': _paths,
    'IterQueryInstances': _iterquery,
    'OpenEnumerateInstances': _pull('instances', _insts_with_path),
    'OpenAssociatorInstances': _pull('instances', _insts_with_path),
    'OpenReferenceInstances': _pull('instances', _insts_with_path),
    'PullInstancesWithPath': _pull('instances', _insts_with_path),
    'OpenEnumerateInstancePaths': _pull('paths', _paths),
    'OpenAssociatorInstancePaths': _pull('paths', _paths),
    'OpenReferenceInstancePaths': _pull('paths', _paths),
    'PullInstancePaths': _pull('paths', _paths),
    'OpenQueryInstances': _pull('instances', _insts),
    'PullInstances': _pull('instances', _insts),
    'CloseEnumeration': _none,
    'EnumerateClasses': lambda v: isinstance(v, list) and all(
        isinstance(c, CIMClass) for c in v),
    'EnumerateClassNames': lambda v: isinstance(v, list) and all(
        isinstance(c, str) for c in v),
    'GetClass': lambda v: isinstance(v, CIMClass),
    'ModifyClass': _none, 'CreateClass': _none, 'DeleteClass': _none,
    'EnumerateQualifiers': lambda v: isinstance(v, list) and all(
        isinstance(q, CIMQualifierDeclaration) for q in v),
    'GetQualifier': lambda v: isinstance(v, CIMQualifierDeclaration),
    'SetQualifier': _none, 'DeleteQualifier': _none,
    'ExportIndication': _none,
}


def innermost_pywbem_frame(exc):
    tb = traceback.extract_tb(exc.__traceback__)
    for fr in reversed(tb):
        if '/pywbem/' in fr.filename or '/pywbem_mock/' in fr.filename:
            return '%s:%s' % (fr.filename.rsplit('/', 1)[-1], fr.name)
    return tb[-1].name if tb else '?'


class Peer:
    def __init__(self, server, plan):
        self.server = server
        self.plan = plan
        self.cur_op = -1
        self.cur_x = 0
        self.fired = []
        self.refuse_left = 0
        self.forced = plan.get('forced_replies')
        self.nexch = 0

    def begin_op(self, i):
        self.cur_op = i
        self.cur_x = 0
        self.refuse_left = 0
        for f in self.plan['faults']:
            if f['kind'] == 'refuse' and f['op'] == i:
                self.refuse_left = f.get('times', 1)
                self.fired.append(('refuse', i, 0))

    def on_connect(self, n):
        if self.refuse_left > 0:
            self.refuse_left -= 1
            raise wire.Refused()

    def __call__(self, raw, idx):
        try:
            return self._reply(raw, idx)
        except BaseException as e:  # pylint: disable=broad-except
            self.harness_exc = e
            raise

    harness_exc = None

    def _reply(self, raw, idx):
        reply = self.server.handle_http(raw)
        x = self.cur_x
        self.cur_x += 1
        k = self.nexch
        self.nexch += 1
        if self.forced is not None:
            if k < len(self.forced) and self.forced[k] is not None:
                self.fired.append(('forced', self.cur_op, x))
                return [a.encode('latin-1') if isinstance(a, str) else
                        (tuple(a) if isinstance(a, list) else a['x'])
                        for a in self.forced[k]]
            return [reply]
        for f in self.plan['faults']:
            if f['kind'] != 'refuse' and f['op'] == self.cur_op and \
                    f['x'] == x:
                self.fired.append((f['kind'], self.cur_op, x))
                return rf.apply(f, reply)
        return [reply]


def execute(plan):
    model = mg.gen_model(plan['model_seed'])
    dn = plan['default_ns']
    kw = {} if dn is None else {'default_namespace': dn}
    if plan.get('timeout') is not None:
        kw['timeout'] = plan['timeout']
    creds = tuple(plan['creds']) if plan.get('creds') else None
    saved_uuid4 = uuid.uuid4
    uuid.uuid4 = _Ids(plan['ids_seed'])
    V = []
    probes = {}
    faults = {}
    trace = []
    exch_log = []

    def viol(sig, msg):
        V.append({'sig': 'C02/' + sig, 'msg': msg})

    def bump(d, k, n=1):
        d[k] = d.get(k, 0) + n

    old_handler = signal.signal(signal.SIGALRM, _alarm)
    try:
        conn_s = mg.fresh_conn(model)
        mg.enable_query(conn_s)     # stub query engine (see modelgen)
        opgen.register_echo(conn_s, model)
        server = wbemserver.SimWBEMServer(conn_s)
        peer = Peer(server, plan)
        net = wire.Net(peer).install()
        try:
            conn = pywbem.WBEMConnection(URL, creds, **kw)
            results = []
            for i, op in enumerate(plan['ops']):
                peer.begin_op(i)
                nex0 = len(net.exchanges)
                nconn0 = net.connects
                nf0 = len(peer.fired)
                signal.setitimer(signal.ITIMER_REAL, CALL_WALL)
                try:
                    res = opgen.call(conn, op, results)
                except _Hang:
                    res = ('hang', None)
                finally:
                    signal.setitimer(signal.ITIMER_REAL, 0)
                results.append(res)
                if peer.harness_exc is not None and \
                        not isinstance(peer.harness_exc, _Hang):
                    raise RuntimeError('harness (peer) failed: %r' %
                                       (peer.harness_exc,))
                name = op['op']
                exchanged = len(net.exchanges) > nex0 or \
                    net.connects > nconn0
                fired = peer.fired[nf0:]
                for fk in fired:
                    bump(faults, fk[0])
                kind, val = res
                replies = [_rd(e) for e in net.exchanges[nex0:]]
                if kind == 'hang':
                    viol('non-termination/%s' % name,
                         'op #%d %s did not return within %ds; faults %s' %
                         (i, name, CALL_WALL, fired))
                    trace.append((name, 'hang'))
                    break
                if kind == 'ok':
                    chk = RESULT_OK.get(name)
                    ok = True
                    try:
                        ok = chk(val) if chk else True
                    except Exception:  # pylint: disable=broad-except
                        ok = False
                    if not ok and fired:
                        viol('wrong-result-type/%s' % name,
                             'op #%d %s returned %s after faults %s; '
                             'reply: %s' % (i, name, _short(val), fired,
                                            _short(replies, 1500)))
                    trace.append((name, 'ok', tuple(f[0] for f in fired)))
                    bump(probes, 'outcome_ok' + ('_after_fault' if fired
                                                 else ''))
                    continue
                e = val
                ename = type(e).__name__
                trace.append((name, ename, tuple(f[0] for f in fired)))
                if isinstance(e, pywbem.Error):
                    bump(probes, 'exc_' + ename)
                    if isinstance(e, pywbem.ParseError) and fired:
                        if getattr(e, 'request_data', None) is None or \
                                getattr(e, 'response_data', None) is None:
                            viol('parse-error-without-data/%s' % ename,
                                 'op #%d %s raised %s without request_data/'
                                 'response_data (%r/%r); faults %s' %
                                 (i, name, ename,
                                  _short(getattr(e, 'request_data', None), 60),
                                  _short(getattr(e, 'response_data', None),
                                         60), fired))
                    continue
                if not exchanged:
                    # argument validation before anything was sent
                    bump(probes, 'local_' + ename)
                    continue
                where = innermost_pywbem_frame(e)
                viol('leaked/%s/%s' % (ename, where),
                     'op #%d %s raised %s: %s\n  at %s; faults %s\n  reply: '
                     '%s' % (i, name, ename, _short(str(e), 300), where,
                             fired, _short(replies, 2500)))
            exch_log = [[_act(a) for a in (e['reply'] or [])]
                        for e in net.exchanges]
        finally:
            net.uninstall()
    finally:
        signal.signal(signal.SIGALRM, old_handler)
        uuid.uuid4 = saved_uuid4
    seen = set()
    out = []
    for v in V:
        if v['sig'] not in seen:
            seen.add(v['sig'])
            out.append(v)
    nfired = sum(faults.values())
    return {'violations': out, 'fingerprint': digest(trace),
            'nontrivial': nfired >= 1, 'probes': probes, 'faults': faults,
            'sim_seconds': 0.0, 'steps': len(plan['ops']),
            'exchanges': exch_log}


def _rd(ex):
    out = []
    for a in (ex['reply'] or []):
        if isinstance(a, bytes):
            b = a.partition(b'\r\n\r\n')
            out.append((b[0][:200], b[2]))
        else:
            out.append(a)
    return out


def _act(a):
    if isinstance(a, bytes):
        return a.decode('latin-1')
    if isinstance(a, tuple):
        return list(a)
    return {'x': a}


def _short(x, n=400):
    s = repr(x)
    return s if len(s) <= n else s[:n] + '...[%d chars]' % len(s)


def sample(plan, res):
    return {'model_seed': plan['model_seed'], 'ops': plan['ops'][:3],
            'faults': plan['faults'], 'n_ops': len(plan['ops'])}


def shrink_candidates(plan):
    # 1. freeze the faulted replies as explicit bytes so that the replay no
    #    longer depends on the mutation code
    if plan.get('forced_replies') is None:
        res = execute(plan)
        p = copy.deepcopy(plan)
        p['forced_replies'] = res['exchanges']
        p['faults'] = [f for f in plan['faults'] if f['kind'] == 'refuse']
        yield p
        for i in range(len(plan['faults']) - 1, -1, -1):
            p = copy.deepcopy(plan)
            del p['faults'][i]
            yield p
        return
    n = len(plan['ops'])
    for k in range(n - 1, 0, -1):
        p = copy.deepcopy(plan)
        p['ops'] = p['ops'][:k]
        yield p
    # drop the first op together with its exchanges is not possible without
    # re-running; instead un-force replies one at a time
    fr = plan['forced_replies']
    for i, a in enumerate(fr):
        if a is not None:
            p = copy.deepcopy(plan)
            p['forced_replies'][i] = None
            yield p
