"""C09 - the MOF compiler is total: it succeeds or raises MOFCompileError.
A run is a history of 2-6 compiles on ONE MOFCompiler object (or one mock
connection) over a generated file tree (include structures, search path
content): valid units, units with one token-level damage, repository faults
(the k-th call of a repository method raises CIMError(code)), include faults
(missing / self / mutual include, directory, non UTF-8 content); it always ends
with a valid unit that is also compiled by a fresh compiler on an equal
repository.  The history runs in a forked child so that a compile that does
not terminate is observed (and killed) by the parent."""
import os
import re
import sys
import copy
import json
import time
import errno
import atexit
import pickle
import select
import shutil
import signal
import tempfile
import warnings
import traceback

from simkit import mofgen
from simkit.prng import stream, digest

ID = 'C09'
LEVEL = 'exploration'
TIERS = {'quick': {'runs': 900, 'budget_s': 80},
         'thorough': {'runs': 10 ** 9, 'budget_s': 600}}
RUN_WALL = 120
HANG_S = 25.0
RULE = ('each run = one generated file tree (include files up to depth 3, '
        'search path with qualifiers.mof and a class chain, optional) and a '
        'history of 2-6 compiles on one MOFCompiler / one mock connection '
        '(handles: MOFWBEMConnection local, MOFWBEMConnection over '
        'FakedWBEMConnection, FakedWBEMConnection as handle, '
        'FakedWBEMConnection.compile_mof_string/file): valid units '
        '(qualifier declarations, class trees, associations, instances with '
        'aliases, embedded instances, pragmas), one token-level damage per '
        'damaged compile (14 kinds), repository faults (method x k-th call '
        'x CIM status code 1..28, once or persistent), include faults; '
        'every compile must terminate (child process, %d s) and either '
        'succeed or raise MOFCompileError (position inside the named file) '
        'or OSError; the final valid unit must give the same repository as '
        'a fresh compiler on a copy of the repository; non-trivial = >= 1 '
        'compile failed and the final unit was compiled; distinct = digest '
        'of (handle, compile kinds, damage kinds, outcome classes)' % HANG_S)
COMPONENTS = {
    'real': ['MOFCompiler (PLY lexer/parser, all p_* actions, include and '
             'search path handling, compile_embedded_value)',
             'MOFWBEMConnection', '_MockMOFWBEMConnection + '
             'FakedWBEMConnection.compile_mof_string/compile_mof_file',
             'real files in a per-process scratch directory'],
    'stub': ['FaultyRepo: BaseRepositoryConnection wrapper that raises '
             'CIMError(code) on the k-th call of one method, otherwise '
             'forwards to the real handle']}
ASSUMPTIONS = [
    'any OSError is accepted as "OSError for a missing file" (missing '
    'include, include of a directory)',
    'position oracle: if lineno is set, file names one of the input files '
    '(None for the compiled string), 1 <= lineno <= lines+1, 0 <= column <= '
    'len(line)+1, and the context line is a line of that file; if the '
    'damage is syntactic its file must be the reported file',
    'alias names are unique per compiler object (re-using an alias of an '
    'earlier compile is not generated)',
    'the recovery clause is judged only if at least one compile of the '
    'history failed; CLASSORIGIN / PROPAGATED attributes of instance '
    'properties are not compared (they depend on the class cache of the '
    'repository connection, failure or not); a position with file None in '
    'a unit that holds embedded instance values is not judged (it may '
    'refer to the embedded MOF text)',
    'totality over arbitrary text is sampled only as far as the damaged '
    'units reach; no coverage of the text space is claimed']

NSS = ['root/cimv2', 'root/other']
HANDLES = ['local', 'local', 'mockwrap', 'mockdirect', 'mockapi']
FAULT_METHODS = ['CreateClass', 'ModifyClass', 'GetClass', 'CreateInstance',
                 'ModifyInstance', 'SetQualifier', 'EnumerateQualifiers',
                 'DeleteQualifier', 'GetQualifier']
_TMP = None


def _tmpdir():
    global _TMP  # pylint: disable=global-statement
    if _TMP is None:
        _TMP = tempfile.mkdtemp(prefix='verif-c09-',
                                dir=os.environ.get('VERIF_WORK'))
        atexit.register(shutil.rmtree, _TMP, True)
    return _TMP


# ------------------------------------------------------------------ plans
def structure(r, prods, files, tag, depth=0):
    """Move a slice of the productions into an include file (recursively);
    returns the text of this level.  files: relpath -> text; include paths
    are relative to the including file."""
    if len(prods) >= 2 and depth < 3 and r.random() < (0.55 if depth == 0
                                                       else 0.45):
        a = r.randrange(0, len(prods))
        b = r.randrange(a + 1, len(prods) + 1)
        sub = 'inc' if depth == 0 else 'sub%d' % depth
        name = '%s/%s_%d.mof' % (sub, tag, depth + 1)
        base = files['__dir__']
        files['__dir__'] = os.path.join(base, sub)
        inner = structure(r, prods[a:b], files, tag, depth + 1)
        files['__dir__'] = base
        files[os.path.normpath(os.path.join(base, name))] = inner
        prods = prods[:a] + ['#pragma include ("%s")' % name] + prods[b:]
    return '\n\n'.join(prods) + '\n'


def gen_unit(r, g, state, final=False):
    """Productions of a valid unit."""
    prods = []
    pre = g.prefix
    if r.random() < 0.3:
        prods.append('#pragma locale ("en_US")')
    plain = [c for c, d in g.classes.items()
             if not any(t.startswith('ref:') for _, t, _ in d['props'])]
    # classes
    for _ in range(r.randint(1, 3)):
        k = r.random()
        if k < 0.3 and plain:
            sup = r.choice(plain)
            n, t = g.klass(sup=sup)
            plain.append(n)
        elif k < 0.45 and len(plain) >= 1:
            n, t = g.klass(assoc_of=(r.choice(plain), r.choice(plain)))
        elif k < 0.6 and plain:
            n, t = g.klass(emb=r.choice(plain))
            plain.append(n)
        else:
            n, t = g.klass()
            plain.append(n)
        prods.append(t)
    # instances
    aliases = {}
    for _ in range(r.randint(0, 4)):
        cands = sorted(g.classes)
        cn = r.choice(cands)
        d = g.classes[cn]
        refs = {}
        ok = True
        for pn, t, _ in d['props']:
            if t.startswith('ref:'):
                tgt = t[4:]
                have = [a for a, c in aliases.items() if c == tgt]
                if have and r.random() < 0.7:
                    refs[pn] = r.choice(have)
                else:
                    refs[pn] = mofgen.mofstr('%s.Id="%s"' % (
                        tgt, 'k%d' % r.randrange(5)))
        emb = None
        for pn, t, _ in d['props']:
            if t.startswith('emb:'):
                ec = t[4:]
                if any(x[1].startswith(('ref:', 'emb:'))
                       for x in g.classes[ec]['props']):
                    continue
                emb = mofgen.mofstr(g.instance(ec, key='e%d' % g.uid()))
        if not ok:
            continue
        alias = g.new_alias() if r.random() < 0.5 else None
        prods.append(g.instance(cn, key='%s%d' % (pre.lower(), g.uid()),
                                alias=alias, refs=refs, emb=emb))
        if alias:
            aliases[alias] = cn
    if not final and r.random() < 0.2 and 'nsq' in state:
        # switch the namespace: an independent class + instance there
        prods.append('#pragma namespace ("root/other")')
        g2 = mofgen.Gen(r, prefix='%s_O%d' % (pre, g.uid()))
        n, t = g2.klass(nprops=2)
        prods.append(t)
        prods.append(g2.instance(n, key='o1'))
    return prods


def gen_plan(run_seed, tier, index):
    r = stream(run_seed, 'plan')
    g = mofgen.Gen(r)
    handle = r.choice(HANDLES)
    files = {'__dir__': ''}
    quals_in = r.choice(['unit', 'unit', 'search', 'include'])
    use_sp = quals_in == 'search' or r.random() < 0.6
    state = {}
    if use_sp:
        if quals_in == 'search':
            files['sp/qualifiers.mof'] = '\n'.join(mofgen.QUAL_DECLS) + '\n'
        if r.random() < 0.75:
            # a class chain that only exists on the search path
            _, t = g.klass(name='TST_Base', nprops=2)
            files['sp/TST_Base.mof'] = t + '\n'
            _, t = g.klass(name='TST_Mid', sup='TST_Base', nprops=1)
            files['sp/deep/TST_Mid.mof'] = t + '\n'
            if r.random() < 0.5:
                _, t = g.klass(name='TST_Low', sup='TST_Mid', nprops=1)
                files['sp/deep/er/TST_Low.mof'] = t + '\n'
    compiles = []
    # compile 0: setup, valid
    prods = []
    if quals_in == 'unit':
        prods += mofgen.QUAL_DECLS
    elif quals_in == 'include':
        files['inc/quals.mof'] = '\n'.join(mofgen.QUAL_DECLS) + '\n'
        prods.append('#pragma include ("inc/quals.mof")')
    state['nsq'] = True
    prods += gen_unit(r, g, state)
    text = structure(r, prods, files, 'u0')
    compiles.append(mk_compile(r, 0, text, files))
    if 'nsq' in state and quals_in != 'search':
        # the qualifiers are needed in the second namespace, too
        compiles.append(mk_compile(
            r, 1, '\n'.join(mofgen.QUAL_DECLS) + '\n', files,
            ns='root/other'))
    nmore = r.randint(1, 4)
    for i in range(nmore):
        ci = len(compiles)
        kind = r.random()
        saved = copy.deepcopy(g.classes), g.n, g.aliases
        prods = gen_unit(r, g, state)
        marker = len(files)
        text = structure(r, prods, files, 'u%d' % ci)
        c = mk_compile(r, ci, text, files)
        newfiles = [f for f in list(files)[marker:] if f != '__dir__']
        if kind < 0.5:
            # one token-level damage in the main text or one of its files
            tgt = r.choice([None] + newfiles) if newfiles else None
            if tgt is None:
                src = c['text'] if c['kind'] == 'string' \
                    else files[c['path']]
            else:
                src = files[tgt]
            kind_ = 'embedded_break' if '"instance of ' in src and \
                r.random() < 0.4 else None
            new, descr = mofgen.damage(r, src, kind_)
            if tgt is None and c['kind'] == 'string' and r.random() < 0.25:
                # the text of compile_string() with CR LF line ends and
                # blank lines (files are read with universal newlines)
                new = new.replace(';\n', ';\n\n').replace('\n', '\r\n')
                descr += ' +crlf'
            if tgt is None and c['kind'] == 'string':
                c['text'] = new
            else:
                files[tgt if tgt is not None else c['path']] = new
            c['damage'] = {'descr': descr,
                           'file': tgt if tgt is not None else c.get('path')}
            g.classes, g.n, g.aliases = saved[0], g.n, g.aliases
        elif kind < 0.56:
            # a qualifier declaration that differs from the one in the
            # repository is rejected by the repository; later MOF that uses
            # the qualifier must be compiled against what the repository
            # really holds
            qn, qt = r.choice([('Description', 'uint32'),
                               ('Description', 'boolean'),
                               ('Key', 'string'), ('MaxLen', 'string')])
            text = 'Qualifier %s : %s = null, Scope(any);\n' % (qn, qt)
            if c['kind'] == 'string':
                c['text'] = text
            else:
                files[c['path']] = text
            c['fault'] = {'method': 'SetQualifier', 'k': 1,
                          'code': r.choice([1, 2, 4, 7, 16]),
                          'persistent': True}
            c['qual_redecl'] = qn
            g.classes = saved[0]
        elif kind < 0.7:
            c['fault'] = {'method': r.choice(FAULT_METHODS),
                          'k': r.choice([1, 1, 2, 3, 5]),
                          'code': r.randint(1, 28),
                          'persistent': r.random() < 0.3}
            g.classes = saved[0]
        elif kind < 0.85:
            fk = r.choice(['self', 'mutual', 'missing', 'dir', 'binary',
                           'missing_main', 'empty', 'bom', 'crlf',
                           'self_dot', 'mutual_dotdot', 'ns_unknown_ref'])
            c['include_fault'] = fk
            name = 'inc/f%d.mof' % ci
            inc = '#pragma include ("%s")\n' % name
            if fk == 'self':
                files[name] = '#pragma include ("f%d.mof")\n' % ci
            elif fk == 'ns_unknown_ref':
                # the first class in a namespace entered with a pragma
                # refers to a class that does not exist anywhere
                src = '#pragma namespace ("%s")\nclass TST_NR%d {\n   ' \
                    'NoSuchCls%d REF r;\n   [EmbeddedInstance("NoSuchE")]' \
                    ' string e;\n};\n' % (r.choice(['root/other', 'ns2',
                                                    'root/cimv2']), ci, ci)
                if c['kind'] == 'string':
                    c['text'] = src
                else:
                    files[c['path']] = src
                inc = ''
            elif fk == 'self_dot':
                # the same file under another spelling of its path
                files[name] = '#pragma include ("%s")\n' % r.choice(
                    ['./f%d.mof' % ci, '../inc/f%d.mof' % ci,
                     'sub/../f%d.mof' % ci])
                files['inc/sub/keep%d.mof' % ci] = ''
            elif fk == 'mutual_dotdot':
                files[name] = '#pragma include ("sub/g%d.mof")\n' % ci
                files['inc/sub/g%d.mof' % ci] = \
                    '#pragma include ("../f%d.mof")\n' % ci
            elif fk == 'mutual':
                files[name] = '#pragma include ("g%d.mof")\n' % ci
                files['inc/g%d.mof' % ci] = \
                    '#pragma include ("f%d.mof")\n' % ci
            elif fk == 'dir':
                files['inc/f%d.mof/x' % ci] = ''
            elif fk == 'binary':
                files[name] = {'hex': 'ff fe 00 c3 28 a0 a1 22'}
            elif fk == 'empty':
                files[name] = ''
            elif fk == 'bom':
                files[name] = '\ufeff' + '#pragma locale ("en_US")\n'
            elif fk == 'crlf':
                src = c['text'] if c['kind'] == 'string' \
                    else files[c['path']]
                # (with blank lines: runs of line ends are one scanner token)
                src = src.replace(';\n', ';\n\n').replace('\n', '\r\n')
                if c['kind'] == 'string':
                    c['text'] = src
                else:
                    files[c['path']] = src
                inc = ''
            elif fk == 'missing_main' and c['kind'] == 'file':
                del files[c['path']]
                inc = ''
            if inc:
                pos = r.choice(['top', 'end'])
                if c['kind'] == 'string':
                    c['text'] = inc + c['text'] if pos == 'top' \
                        else c['text'] + inc
                else:
                    t0 = files[c['path']]
                    files[c['path']] = inc + t0 if pos == 'top' \
                        else t0 + inc
            g.classes = saved[0]
        compiles.append(c)
        if c.get('include_fault') in ('binary', 'missing') and \
                r.random() < 0.6:
            # the unreadable / missing file is repaired and the very same
            # compile is tried again on the same compiler object
            rc = {k: v for k, v in c.items() if k != 'include_fault'}
            rc['retry_of'] = ci
            rc['rewrite'] = {'inc/f%d.mof' % ci:
                             'class RT_%d { [Key] string Id; };\n' % ci}
            compiles.append(rc)
    # the final valid unit, independent of what the history defined
    gf = mofgen.Gen(r, prefix='FIN')
    prods = ['Qualifier FinQ : string = null, Scope(any);']
    n1, t1 = gf.klass(nprops=2)
    prods.append(t1)
    if 'sp/deep/TST_Mid.mof' in files and r.random() < 0.7:
        gf.classes['TST_Mid'] = g.classes.get('TST_Mid') or \
            {'super': None, 'props': [('Id', 'string', False)]}
        n2, t2 = gf.klass(sup='TST_Mid', nprops=1)
    else:
        n2, t2 = gf.klass(sup=n1, nprops=1)
    prods.append(t2)
    n3, t3 = gf.klass(assoc_of=(n1, n1))
    prods.append(t3)
    n4, t4 = gf.klass(emb=n1, nprops=0)
    prods.append(t4)
    a1 = gf.new_alias()
    prods.append(gf.instance(n1, key='f1', alias=a1))
    prods.append(gf.instance(n2, key='f2'))
    prods.append(gf.instance(n3, refs={
        'Left': a1, 'Right': mofgen.mofstr('%s.Id="f1"' % n1)}))
    prods.append(gf.instance(n4, key='f4', emb=mofgen.mofstr(
        gf.instance(n1, key='fe'))))
    text = structure(r, prods, files, 'fin')
    final = mk_compile(r, 99, text, files)
    del files['__dir__']
    return {'check': ID, 'handle': handle, 'files': files,
            'search_paths': ['sp'] if use_sp else [],
            'compiles': compiles, 'final': final}


def mk_compile(r, i, text, files, ns=None):
    if r.random() < 0.5:
        return {'kind': 'string', 'text': text, 'ns': ns}
    path = 'main_%d.mof' % i
    files[path] = text
    return {'kind': 'file', 'path': path, 'ns': ns}


# -------------------------------------------------------------- the world
def write_tree(root, files):
    shutil.rmtree(root, True)
    os.makedirs(root)
    for rel, content in files.items():
        p = os.path.join(root, rel)
        os.makedirs(os.path.dirname(p), exist_ok=True)
        if os.path.isdir(p):
            continue
        if isinstance(content, dict):
            with open(p, 'wb') as f:
                f.write(bytes.fromhex(content['hex']))
        else:
            with open(p, 'w', encoding='utf-8', newline='') as f:
                f.write(content)


def make_faulty(base):
    from pywbem import CIMError
    from pywbem._mof_compiler import BaseRepositoryConnection

    class FaultyRepo(BaseRepositoryConnection):
        """Forwards to the real handle; raises CIMError(code) on the k-th
        call (or from the k-th call on) of one method."""

        def __init__(self, inner):
            self.inner = inner
            self.conn = getattr(inner, 'conn', None)
            self.fault = None
            self.calls = {}
            self.fired = 0

        def _getns(self):
            return self.inner.default_namespace

        def _setns(self, v):
            self.inner.default_namespace = v

        default_namespace = property(_getns, _setns)

        def _do(self, name, a, kw):
            n = self.calls.get(name, 0) + 1
            self.calls[name] = n
            f = self.fault
            if f and f['method'] == name and (
                    n == f['k'] or (f['persistent'] and n > f['k'])):
                self.fired += 1
                raise CIMError(f['code'], 'injected fault')
            return getattr(self.inner, name)(*a, **kw)

        def rollback(self, verbose=False):
            return self.inner.rollback(verbose)

    def mk(name):
        def m(self, *a, **kw):
            return self._do(name, a, kw)
        m.__name__ = name
        return m
    for name in ('EnumerateInstanceNames', 'CreateInstance',
                 'ModifyInstance', 'DeleteInstance', 'GetClass',
                 'ModifyClass', 'CreateClass', 'DeleteClass',
                 'EnumerateQualifiers', 'GetQualifier', 'SetQualifier',
                 'DeleteQualifier'):
        setattr(FaultyRepo, name, mk(name))
    FaultyRepo.__abstractmethods__ = frozenset()
    return FaultyRepo(base)


def new_mock():
    import pywbem_mock
    c = pywbem_mock.FakedWBEMConnection(default_namespace=NSS[0])
    c.add_namespace(NSS[1])
    return c


def clone_mock(conn):
    import pywbem_mock
    c = pywbem_mock.FakedWBEMConnection(default_namespace=NSS[0])
    c.cimrepository._repository = pickle.loads(  # noqa
        pickle.dumps(conn.cimrepository._repository))  # noqa
    return c


# class origin / propagated attributes of instance properties depend on
# whether the compiler got the class from its class cache or from the
# repository (with or without an earlier failure); not compared
_ATTR = re.compile(r' (CLASSORIGIN|PROPAGATED)="[^"]*"')


def _x(o, **kw):
    """Canonical text of a CIM object (CIM-XML, or repr if the object
    holds characters that CIM-XML cannot represent)."""
    try:
        return o.tocimxmlstr(**kw)
    except (ValueError, TypeError):
        return repr(o) + repr(sorted(
            (n, repr(p)) for n, p in o.properties.items()))


def dump_handle(h):
    import pywbem
    out = []
    conn = h if isinstance(h, pywbem.WBEMConnection) else \
        getattr(h, 'conn', None)
    if conn is not None:
        rep = conn.cimrepository
        for ns in sorted(rep.namespaces, key=str.lower):
            out.append(('NS', ns.lower()))
            for c in sorted(rep.get_class_store(ns).iter_values(),
                            key=lambda c: c.classname.lower()):
                out.append(('C', ns.lower(), c.classname.lower(), _x(c)))
            for q in sorted(rep.get_qualifier_store(ns).iter_values(),
                            key=lambda q: q.name.lower()):
                out.append(('Q', ns.lower(), q.name.lower(), _x(q)))
            out.append(('I', ns.lower(), sorted(
                _ATTR.sub('', _x(i, ignore_path=False))
                for i in rep.get_instance_store(ns).iter_values())))
    if not isinstance(h, pywbem.WBEMConnection):
        for attr in ('qualifiers', 'classes'):
            d = getattr(h, attr, {})
            for ns in sorted(d):
                for n in sorted(d[ns].keys(), key=str.lower):
                    out.append((attr, ns, n.lower(), _x(d[ns][n])))
        d = getattr(h, 'instances', {})
        for ns in sorted(d):
            out.append(('instances', ns, sorted(
                _ATTR.sub('', _x(i, ignore_path=False)) for i in d[ns])))
    return out


class World:
    def __init__(self, plan, root):
        import pywbem
        from pywbem import MOFCompiler
        from pywbem._mof_compiler import MOFWBEMConnection
        self.plan = plan
        self.root = root
        self.sp = [os.path.join(root, s) for s in plan['search_paths']]
        hk = plan['handle']
        self.kind = hk
        self.conn = None
        if hk == 'local':
            base = MOFWBEMConnection()
        elif hk == 'mockwrap':
            self.conn = new_mock()
            base = MOFWBEMConnection(self.conn)
        else:
            self.conn = new_mock()
            base = self.conn
        self.base = base
        self.faulty = None
        if hk in ('local', 'mockwrap'):
            self.faulty = make_faulty(base)
            self.comp = MOFCompiler(self.faulty, search_paths=self.sp,
                                    log_func=None)
        elif hk == 'mockdirect':
            self.comp = MOFCompiler(self.conn, search_paths=self.sp,
                                    log_func=None)
        else:
            self.comp = None

    def fresh_twin(self):
        """A fresh compiler on a copy of the repository."""
        from pywbem import MOFCompiler
        from pywbem._mof_compiler import MOFWBEMConnection
        hk = self.kind
        if hk == 'local':
            h = copy.deepcopy(self.base)
            return h, MOFCompiler(h, search_paths=self.sp, log_func=None)
        conn2 = clone_mock(self.conn)
        if hk == 'mockwrap':
            h = MOFWBEMConnection(conn2)
            for a in ('class_names', 'qualifiers', 'instances', 'classes',
                      'compile_ordered_classnames'):
                setattr(h, a, copy.deepcopy(getattr(self.base, a)))
            h.default_namespace = self.base.default_namespace
            return h, MOFCompiler(h, search_paths=self.sp, log_func=None)
        if hk == 'mockdirect':
            return conn2, MOFCompiler(conn2, search_paths=self.sp,
                                      log_func=None)
        return conn2, None

    def run_compile(self, c, comp='own', conn=None):
        comp = self.comp if comp == 'own' else comp
        conn = conn or self.conn
        ns = c.get('ns')
        if comp is None:
            if c['kind'] == 'string':
                return conn.compile_mof_string(c['text'], namespace=ns,
                                               search_paths=self.sp)
            return conn.compile_mof_file(
                os.path.join(self.root, c['path']), namespace=ns,
                search_paths=self.sp)
        if c['kind'] == 'string':
            return comp.compile_string(c['text'], ns)
        return comp.compile_file(os.path.join(self.root, c['path']), ns)


def judge(world, c, exc):
    """Violations for the outcome of one compile."""
    import pywbem
    V = []
    if exc is None:
        return V, 'ok'
    name = type(exc).__name__
    if isinstance(exc, OSError):
        return V, 'OSError'
    if not isinstance(exc, pywbem.MOFCompileError):
        tb = traceback.extract_tb(exc.__traceback__)
        where = ''
        for fr in reversed(tb):
            if '/pywbem' in fr.filename or 'ply' in fr.filename:
                where = '%s:%s' % (os.path.basename(fr.filename), fr.name)
                break
        V.append(('escaped/%s/%s' % (name, where),
                  '%s escaped from the compile (%s): %s; %s' % (
                      name, describe(c), str(exc)[:200], where)))
        return V, 'escaped'
    if exc.lineno is None:
        return V, name + '/nopos'
    if exc.file is None and any(
            isinstance(t, str) and '"instance of ' in t
            for t in [c.get('text')] + list(world.plan['files'].values())):
        # the position may refer to the MOF text of an embedded instance
        # value, which is compiled as a string of its own
        return V, name + '/embedded'
    root = world.root
    texts = {}
    if c['kind'] == 'string':
        texts[None] = c['text']
    for rel, content in world.plan['files'].items():
        if isinstance(content, str):
            # (files are read in text mode: universal newlines)
            content = content.replace('\r\n', '\n').replace('\r', '\n')
            texts[os.path.join(root, rel)] = content
            texts[rel] = content
    f = exc.file
    key = f
    if f is not None and f not in texts:
        nf = os.path.normpath(f)
        key = nf if nf in texts else None
        if key is None and not os.path.isabs(nf):
            cand = os.path.normpath(os.path.join(root, nf))
            key = cand if cand in texts else None
        if key is None:
            V.append(('position/file-unknown',
                      '%s: file %r does not name an input file (%s)' % (
                          name, f, describe(c))))
            return V, name
    text = texts[key]
    dmg = c.get('damage')
    # (only errors of the scanner / grammar are tied to the damaged spot;
    # a damaged definition - an alias, a class name - may legitimately
    # surface where it is used, in another file)
    lexical = str(exc.msg or '').startswith(
        ('MOF grammar error', 'Illegal character', 'Unexpected end of MOF',
         'Invalid binary number', 'Invalid octal number'))
    if dmg and isinstance(exc, pywbem.MOFParseError) and lexical:
        want = None if dmg['file'] is None else \
            os.path.join(root, dmg['file'])
        got = None if key is None else (
            key if os.path.isabs(key) else os.path.join(root, key))
        if want != got:
            V.append(('position/wrong-file',
                      'MOFParseError names file %r but the only damage is '
                      'in %r (%s)' % (f, dmg['file'], describe(c))))
    lines = text.split('\n')
    if not 1 <= exc.lineno <= len(lines) + 1:
        V.append(('position/line-out-of-range',
                  '%s: line %r of %r which has %d lines (%s)' % (
                      name, exc.lineno, f, len(lines), describe(c))))
    elif exc.column is not None:
        ln = lines[exc.lineno - 1] if exc.lineno <= len(lines) else ''
        if not 0 <= exc.column <= len(ln) + 1:
            V.append(('position/column-out-of-range',
                      '%s: column %r in line %r of %r (length %d) (%s)' % (
                          name, exc.column, exc.lineno, f, len(ln),
                          describe(c))))
    ctx = exc.context
    if ctx and len(ctx) >= 2 and lexical and \
            1 <= exc.lineno <= len(lines) and \
            ctx[-2].strip('\r\n') != lines[exc.lineno - 1].strip('\r\n'):
        # scanner / grammar errors point at a token: line number and context
        # line must belong together
        V.append(('position/line-and-context-disagree',
                  '%s: reported line %d of %r is %r, but the context shows '
                  '%r (%s)' % (name, exc.lineno, f,
                               lines[exc.lineno - 1][:60],
                               ctx[-2][:60], describe(c))))
    if ctx and len(ctx) >= 2:
        cl = ctx[-2].strip('\r\n')
        if not any(cl == x.strip('\r\n') or (cl and cl in x)
                   for x in lines):
            V.append(('position/context-not-in-file',
                      '%s: context line %r is not a line of %r (%s)' % (
                          name, cl[:60], f, describe(c))))
    return V, name


def _sdiff(x, other):
    """Where entry x differs from the same-keyed entry of the other dump."""
    for y in other:
        if y[:3] == x[:3] and len(y) == len(x):
            a, b = str(x[-1]), str(y[-1])
            k = next((i for i in range(min(len(a), len(b)))
                      if a[i] != b[i]), min(len(a), len(b)))
            return 'used ...%s | fresh ...%s' % (a[max(0, k - 60):k + 60],
                                                 b[max(0, k - 60):k + 60])
    return 'only in used'


def describe(c):
    d = {'kind': c['kind']}
    for k in ('damage', 'fault', 'include_fault'):
        if k in c:
            d[k] = c[k]['descr'] if k == 'damage' else c[k]
    return json.dumps(d, sort_keys=True)[:300]


def child_main(plan, wfd):
    """Runs in the forked child: the whole history; writes progress lines
    and one JSON result to wfd."""
    warnings.simplefilter('ignore')
    out = os.fdopen(wfd, 'w', buffering=1)
    root = os.path.join(_tmpdir(), 'w%d' % os.getppid())
    write_tree(root, plan['files'])
    os.chdir(root)
    sys.setrecursionlimit(3000)
    V = []
    probes = {}
    faults = {}
    kinds = []

    def bump(d, k, n=1):
        d[k] = d.get(k, 0) + n

    w = World(plan, root)
    nfailed = 0
    for i, c in enumerate(plan['compiles']):
        out.write('C %d\n' % i)
        if w.faulty is not None:
            w.faulty.fault = c.get('fault')
            w.faulty.calls = {}
            w.faulty.fired = 0
        for rel, content in c.get('rewrite', {}).items():
            os.makedirs(os.path.dirname(os.path.join(root, rel)),
                        exist_ok=True)
            with open(os.path.join(root, rel), 'w', encoding='utf-8',
                      newline='') as f:
                f.write(content)
            plan['files'][rel] = content
        twin = None
        if c.get('retry_of') is not None:
            try:
                twin = w.fresh_twin()
            except Exception as e:  # pylint: disable=broad-except
                bump(probes, 'twin_failed_%s' % type(e).__name__)
        exc = None
        try:
            w.run_compile(c)
        except BaseException as e:  # pylint: disable=broad-except
            if isinstance(e, (KeyboardInterrupt, SystemExit)):
                raise
            exc = e
        v, cls = judge(w, c, exc)
        V += v
        if twin is not None:
            e_twin = None
            try:
                if w.kind == 'mockapi':
                    w.run_compile(c, comp=None, conn=twin[0])
                else:
                    w.run_compile(c, comp=twin[1])
            except BaseException as e:  # pylint: disable=broad-except
                if isinstance(e, (KeyboardInterrupt, SystemExit)):
                    raise
                e_twin = e
            bump(probes, 'retry_after_repair_%s' % (
                'ok' if exc is None else 'fails_everywhere'
                if e_twin is not None else 'fails_on_used_compiler_only'))
            if exc is not None and e_twin is None:
                V.append(('recovery/retry-after-repair-fails',
                          'compile %d (%s) failed, its file was repaired and '
                          'the same compile was tried again: it fails on the '
                          'used compiler (%s) but succeeds on a fresh '
                          'compiler over a copy of the repository' % (
                              c['retry_of'], describe(c), str(exc)[:300])))
        if exc is not None:
            nfailed += 1
        what = 'damage' if 'damage' in c else 'fault' if 'fault' in c else \
            'include_fault' if 'include_fault' in c else 'valid'
        kinds.append((what, cls))
        bump(probes, 'outcome_%s_%s' % (what, cls.split('/')[0]))
        if 'damage' in c:
            bump(faults, 'damage/' + c['damage']['descr'].split(' ')[0])
        if 'include_fault' in c:
            bump(faults, 'include/' + c['include_fault'])
        if w.faulty is not None and w.faulty.fired:
            bump(faults, 'repo/%s' % c['fault']['method'], w.faulty.fired)
            bump(probes, 'repo_fault_code_%d' % c['fault']['code'])
        if what == 'valid' and exc is not None and i == 0:
            bump(probes, 'setup_unit_failed')
        if w.faulty is not None:
            w.faulty.fault = None
    # ---- recovery: the final valid unit on the old compiler and on a
    # fresh compiler over a copy of the repository
    out.write('C 99\n')
    fin = plan['final']
    try:
        h2, comp2 = w.fresh_twin()
    except Exception as e:  # pylint: disable=broad-except
        h2 = comp2 = None
        bump(probes, 'twin_failed_%s' % type(e).__name__)
    e_old = e_new = None
    try:
        w.run_compile(fin)
    except BaseException as e:  # pylint: disable=broad-except
        if isinstance(e, (KeyboardInterrupt, SystemExit)):
            raise
        e_old = e
    v, cls_old = judge(w, fin, e_old)
    V += v
    final_done = False
    if h2 is not None:
        try:
            if w.kind == 'mockapi':
                w.run_compile(fin, comp=None, conn=h2)
            else:
                w.run_compile(fin, comp=comp2)
        except BaseException as e:  # pylint: disable=broad-except
            if isinstance(e, (KeyboardInterrupt, SystemExit)):
                raise
            e_new = e
        final_done = True
        hist = '+'.join(sorted({k[1].split('/')[0] for k in kinds
                                if k[1] != 'ok'})) or 'none'
        if (e_old is None) != (e_new is None) and nfailed:
            V.append(('recovery/valid-unit-%s-after/%s' % (
                'fails' if e_old is not None else 'succeeds-only', hist),
                'the final valid unit %s on the used compiler (%r) but %s '
                'on a fresh compiler over a copy of the repository (%r); '
                'history: %s' % (
                    'fails' if e_old else 'succeeds', e_old and
                    str(e_old)[:300], 'fails' if e_new else 'succeeds',
                    e_new and str(e_new)[:200], kinds)))
        elif nfailed == 0:
            bump(probes, 'recovery_not_judged_no_failure')
        elif e_old is None:
            d1 = dump_handle(w.base)
            d2 = dump_handle(h2)
            if d1 != d2:
                diff = [('used', x[:3], _sdiff(x, d2)) for x in d1
                        if x not in d2][:2] + \
                    [('fresh', x[:3]) for x in d2 if x not in d1][:2]
                V.append(('recovery/repository-differs/%s' % hist,
                          'after the final valid unit the repository of the '
                          'used compiler differs from that of a fresh '
                          'compiler: %s; history: %s' % (
                              str(diff)[:400], kinds)))
            bump(probes, 'recovery_compared')
        else:
            bump(probes, 'final_failed_on_both_%s' % type(e_old).__name__)
    seen = set()
    vv = []
    for sig, msg in V:
        if sig not in seen:
            seen.add(sig)
            vv.append({'sig': 'C09/' + sig, 'msg': msg})
    res = {'violations': vv, 'probes': probes, 'faults': faults,
           'kinds': kinds, 'nfailed': nfailed, 'final_done': final_done}
    out.write('R ' + json.dumps(res) + '\n')
    out.close()


def execute(plan):
    rfd, wfd = os.pipe()
    pid = os.fork()
    if pid == 0:
        code = 0
        try:
            os.close(rfd)
            child_main(plan, wfd)
        except BaseException:  # pylint: disable=broad-except
            try:
                os.write(wfd, ('X ' + json.dumps(
                    traceback.format_exc()) + '\n').encode())
            except OSError:
                pass
            code = 3
        finally:
            os._exit(code)  # pylint: disable=protected-access
    os.close(wfd)
    buf = b''
    deadline = time.monotonic() + HANG_S
    hung = False
    while True:
        left = deadline - time.monotonic()
        if left <= 0:
            hung = True
            break
        rl, _, _ = select.select([rfd], [], [], left)
        if not rl:
            hung = True
            break
        chunk = os.read(rfd, 65536)
        if not chunk:
            break
        buf += chunk
        if b'\nC ' in chunk or chunk.startswith(b'C '):
            deadline = time.monotonic() + HANG_S
    os.close(rfd)
    if hung:
        try:
            os.kill(pid, signal.SIGKILL)
        except OSError:
            pass
    os.waitpid(pid, 0)
    lines = buf.decode('utf-8', 'replace').split('\n')
    last_c = None
    res = None
    crash = None
    for ln in lines:
        if ln.startswith('C '):
            last_c = int(ln[2:])
        elif ln.startswith('R '):
            res = json.loads(ln[2:])
        elif ln.startswith('X '):
            crash = json.loads(ln[2:])
    if crash is not None and res is None:
        raise RuntimeError('C09 child crashed:\n' + crash)
    if hung and res is None:
        if last_c is None:
            raise RuntimeError('C09 child made no progress')
        c = plan['final'] if last_c == 99 else plan['compiles'][last_c]
        what = 'damage' if 'damage' in c else 'fault' if 'fault' in c else \
            'include_fault' if 'include_fault' in c else 'valid'
        detail = c.get('damage', {}).get('descr', '').split(' ')[0] or \
            c.get('include_fault', '')
        res = {'violations': [{
            'sig': 'C09/non-termination/%s/%s' % (what, detail),
            'msg': 'compile %d (%s) did not terminate within %.0f s' % (
                last_c, describe(c), HANG_S)}],
            'probes': {'hang': 1}, 'faults': {}, 'kinds': [],
            'nfailed': 1, 'final_done': False}
    if res is None:
        raise RuntimeError('C09 child ended without a result: %r' % buf[-300:])
    fp = digest((plan['handle'], [(c['kind'],
                                   c.get('damage', {}).get('descr', '')[:12],
                                   c.get('include_fault'),
                                   (c.get('fault') or {}).get('method'))
                                  for c in plan['compiles']],
                 res['kinds'], sorted(v['sig'] for v in res['violations'])))
    bump = res['probes']
    bump['handle_' + plan['handle']] = 1
    return {'violations': res['violations'], 'fingerprint': fp,
            'nontrivial': res['nfailed'] >= 1 and res['final_done'],
            'probes': res['probes'], 'faults': res['faults'],
            'sim_seconds': 0.0, 'steps': len(plan['compiles']) + 1,
            'evaluations': len(plan['compiles']) + 1}


def sample(plan, res):
    return {'handle': plan['handle'],
            'compiles': [describe(c) for c in plan['compiles']]}


def shrink_candidates(plan):
    n = len(plan['compiles'])
    for k in range(n - 1, 0, -1):
        p = copy.deepcopy(plan)
        del p['compiles'][k]
        yield p
    if plan['handle'] != 'local':
        p = copy.deepcopy(plan)
        p['handle'] = 'local'
        yield p
    for i, c in enumerate(plan['compiles']):
        for k in ('fault', 'include_fault'):
            if k in c and k == 'fault':
                p = copy.deepcopy(plan)
                del p['compiles'][i][k]
                yield p
