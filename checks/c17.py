"""C17 - the listener answers any HTTP request with one well-formed response
and survives.  Request byte sequences x disconnect points x histories against
the real WBEMListener on the simulated socket/thread layer."""
import os
import re
import copy

from simkit import lworld, REPO
from simkit.prng import stream

ID = 'C17'
LEVEL = 'exploration'
TIERS = {'quick': {'runs': 6400, 'budget_s': 50},
         'thorough': {'runs': 10 ** 9, 'budget_s': 600}}
RUN_WALL = 90
SHRINK_BUDGET_S = 60
RULE = ('each run = 1-6 HTTP requests sent one after the other to a started '
        'listener: valid ExportIndication requests (bytes captured from the '
        'real client) and requests derived from them by one (sometimes two) '
        'mutation of request line, headers, Content-Length or CIM-XML body, '
        'optionally fragmented or cut off by a sender disconnect; always '
        'followed by a valid indication and stop(); non-trivial = at least '
        'one mutated request was answered; distinct = SHA-1 of the scheduler '
        'event sequence (which includes the response classes)')
COMPONENTS = {
    'real': ['pywbem/_listener.py (private copy)', 'stdlib socketserver and '
             'http.server (private copies)', 'pywbem _tupletree/_tupleparse/'
             '_cim_xml', 'lxml DTD validator with tests/dtd/DSP0203_2.3.1.dtd'],
    'stub': ['Sim threads/queue/sockets/time as in C16',
             'byte-level HTTP sender', 'request mutation catalogue']}
ASSUMPTIONS = [
    'request lines that the stdlib itself rejects or treats as HTTP/0.9 are '
    'only required not to harm the listener (stdlib decides the response)',
    'a declared Content-Length larger than the bytes sent is modelled as the '
    'sender half-closing after its last byte']

PORT = 5000
_DTD = None


def dtd():
    global _DTD  # pylint: disable=global-statement
    if _DTD is None:
        from lxml import etree
        _DTD = etree.DTD(open(os.path.join(
            REPO, 'tests', 'dtd', 'DSP0203_2.3.1.dtd'), 'rb'))
    return _DTD


# ------------------------------------------------------------- request model
def split_request(data):
    head, body = data.split(b'\r\n\r\n', 1)
    lines = head.decode('latin-1').split('\r\n')
    hdrs = [l.split(': ', 1) for l in lines[1:]]
    return {'line': lines[0], 'headers': hdrs, 'body': body}


def join_request(rq):
    head = rq['line'] + '\r\n' + ''.join(
        '%s: %s\r\n' % (k, v) for k, v in rq['headers']) + '\r\n'
    return head.encode('latin-1', 'replace') + rq['body']


def set_header(rq, name, value):
    for h in rq['headers']:
        if h[0].lower() == name.lower():
            if value is None:
                rq['headers'].remove(h)
            else:
                h[1] = value
            return
    if value is not None:
        rq['headers'].append([name, value])


def fix_len(rq):
    set_header(rq, 'Content-Length', str(len(rq['body'])))


def body_sub(rq, old, new):
    assert old in rq['body'], old
    rq['body'] = rq['body'].replace(old, new, 1)
    fix_len(rq)


# Each mutation: fn(rq, r) -> expectation class
#  'ack' 'cimerr' 'badxml' 'hdr' '405' 'stdlib' 'err' (any status>=400 or
#  CIM error, but not success) 'any' 'survive'
def m_method_405(rq, r):
    m = r.choice(['GET', 'PUT', 'DELETE', 'OPTIONS', 'HEAD', 'TRACE',
                  'CONNECT', 'PATCH'])
    rq['line'] = rq['line'].replace('POST', m, 1)
    return '405'


def m_method_unknown(rq, r):
    m = r.choice(['FOO', 'post', 'M-POST', 'M_POST', 'P\xf6ST', 'POST2',
                  '__init__', 'POST' * 50])
    rq['line'] = rq['line'].replace('POST', m, 1)
    return 'stdlib'


def m_version(rq, r):
    v, e = r.choice([('HTTP/1.0', 'ack'), ('HTTP/1.9', 'any'),
                     ('HTTP/2.0', 'stdlib'), ('HTTP/0.9', 'any'),
                     ('HTTP/1.1.1', 'stdlib'), ('HTTP/x.y', 'stdlib'),
                     ('HTTP/-1.1', 'stdlib'), ('HTTP/1.' + '1' * 30, 'any'),
                     ('FTP/1.1', 'stdlib'), ('', 'survive')])
    rq['line'] = ('POST / ' + v).rstrip()
    return e


def m_reqline_garbage(rq, r):
    rq['line'] = r.choice([
        '', ' ', '\x00\x01\x02', 'POST', 'POST  /  HTTP/1.1', 'POST / HTTP/1.1 x',
        'POST /' + 'a' * 70000 + ' HTTP/1.1', '/ POST HTTP/1.1',
        'POST /\xe4\xf6 HTTP/1.1', 'POST http://simhost:5000/ HTTP/1.1',
        'POST * HTTP/1.1', '\r', 'GET /'])
    return 'survive'


def m_path(rq, r):
    p = r.choice(['/x', '/cimom', '/' + 'p' * 3000, '/?a=b', '//', '/%00'])
    rq['line'] = 'POST %s HTTP/1.1' % p
    return 'ack'


def m_clen(rq, r):
    n = len(rq['body'])
    v, e = r.choice([
        (None, 'badxml'), ('abc', 'err'), ('', 'err'), ('-5', 'any'),
        ('-0', 'any'), (str(n - 10), 'badxml'), ('0', 'badxml'),
        ('1', 'badxml'), (str(n + 10), 'any'), (str(n + 5000), 'any'),
        ('1' + '0' * 19, 'err'), ('1e3', 'err'), (' %d ' % n, 'any'),
        ('%d, %d' % (n, n), 'err'), ('0x10', 'err'), ('+%d' % n, 'any'),
        (str(n) + '\x0b', 'any'), ('\xb2', 'err'), ('12.0', 'err'),
        (str(2 ** 31 + 7), 'any'), ('999999999999999', 'any'),
        (str(2 ** 63 - 1), 'any'), (str(2 ** 40), 'any')])
    set_header(rq, 'Content-Length', v)
    rq['_half_close'] = True
    return e


def m_clen_dup(rq, r):
    n = len(rq['body'])
    rq['headers'].append(['Content-Length', r.choice([str(n), '3', 'abc'])])
    return 'any'


def m_ctype(rq, r):
    v, e = r.choice([
        ('text/xml', 'ack'), ('application/xml', 'ack'),
        ('application/xml; charset=utf-8', 'ack'),
        ('application/xml; charset="utf-8"', 'ack'),
        ('TEXT/XML; charset=UTF-8', 'ack'),
        ('text/plain', 'hdr'), (None, 'hdr'), ('', 'hdr'),
        ('application/xml; charset=latin1', 'hdr'),
        ('application/json', 'hdr'), ('text/xml\x0bfoo', 'any'),
        ('\xe4\xf6\xfc/xml', 'hdr'), ('text/html;' + 'x' * 300, 'hdr'),
        ('multipart/form-data; boundary=x', 'hdr')])
    set_header(rq, 'Content-type', v)
    return e


def m_accept(rq, r):
    h, v, e = r.choice([
        ('Accept', 'text/xml', 'ack'), ('Accept', 'application/xml', 'ack'),
        ('Accept', 'text/html', 'hdr'), ('Accept', '', 'hdr'),
        ('Accept', 'text/xml, */*', 'hdr'),
        ('Accept', 'te\x0bxt\x1c\x85 {0} %s', 'hdr'),
        ('Accept', '\xe4\xf6\xfc\xff', 'hdr'),
        ('Accept-Charset', 'utf-8', 'ack'), ('Accept-Charset', 'UTF-8', 'ack'),
        ('Accept-Charset', '*', 'ack'),
        ('Accept-Charset', 'iso-8859-1', 'hdr'),
        ('Accept-Charset', 'iso-8859-1, utf-8;q=0.5', 'ack'),
        ('Accept-Charset', '', 'hdr'), ('Accept-Charset', ';;;,,,', 'hdr'),
        ('Accept-Charset', 'x' * 5000, 'hdr'),
        ('Accept-Range', 'bytes', 'hdr'), ('Accept-Range', '', 'hdr'),
        ('Accept-Encoding', 'br', 'ack'), ('Accept-Language', 'xx', 'ack'),
        ('Content-Encoding', 'gzip', 'hdr'),
        ('Content-Encoding', 'identity', 'ack'),
        ('Content-Encoding', 'IDENTITY', 'ack'),
        ('Content-Encoding', 'ident\x1city', 'hdr'),
        ('Content-Language', 'de', 'ack'), ('Range', 'bytes=0-1', 'ack'),
        ('Expect', '100-continue', 'ack'), ('Expect', 'nonsense', 'any'),
        ('Transfer-Encoding', 'chunked', 'any'),
        ('Connection', 'close', 'ack'), ('Connection', 'Keep-Alive', 'ack'),
        ('CIMExport', 'Bogus', 'any'), ('CIMExportMethod', 'Other', 'any'),
        ('Host', 'evil\x0bhost', 'ack')])
    set_header(rq, h, v)
    return e


def m_hdr_struct(rq, r):
    k = r.choice(['many', 'long', 'fold', 'nocolon', 'emptyname', 'lf',
                  'cr', 'nul'])
    if k == 'many':
        rq['headers'] += [['X-H%d' % i, 'v'] for i in range(120)]
        return 'stdlib'
    if k == 'long':
        rq['headers'].append(['X-Long', 'v' * 70000])
        return 'stdlib'
    if k == 'fold':
        rq['headers'].insert(0, ['Accept', 'text/html\r\n\t continued'])
        return 'any'
    if k == 'nocolon':
        rq['headers'].insert(r.randrange(len(rq['headers'])),
                             ['no colon here', ''])
        rq['_raw_hdr_fix'] = 'nocolon'
        return 'any'
    if k == 'emptyname':
        rq['headers'].insert(0, ['', 'x'])
        return 'any'
    if k == 'lf':
        set_header(rq, 'Accept', 'text/html\nX-Injected: 1')
        return 'any'
    if k == 'cr':
        set_header(rq, 'Accept', 'text/html\rX-Injected: 1')
        return 'any'
    set_header(rq, 'Accept', 'text/\x00html')
    return 'any'


def m_body_trunc(rq, r):
    n = len(rq['body'])
    rq['body'] = rq['body'][:r.randrange(0, n - 1)]
    fix_len(rq)
    return 'badxml'


def m_body_bytes(rq, r):
    k = r.choice(['ff', 'cont', 'nul', 'ctl', 'garbage', 'empty', 'bom',
                  'lonesurr', 'fffe', 'overlong'])
    ins = {'ff': b'\xff', 'cont': b'\x80', 'nul': b'\x00', 'ctl': b'\x01',
           'lonesurr': b'\xed\xa0\x80', 'fffe': b'\xef\xbf\xbe',
           'overlong': b'\xc0\xaf'}
    if k in ins:
        body_sub(rq, b'<VALUE>', b'<VALUE>' + ins[k])
        return 'badxml'
    if k == 'garbage':
        rq['body'] = bytes(r.getrandbits(8) for _ in range(r.randint(1, 300)))
        fix_len(rq)
        return 'badxml'
    if k == 'empty':
        rq['body'] = b''
        fix_len(rq)
        return 'badxml'
    rq['body'] = b'\xef\xbb\xbf' + rq['body']
    fix_len(rq)
    return 'any'


def m_body_unicode(rq, r):
    s = r.choice(['\xe4\xf6\xfc', '€', '\U0001d11e', '中文',
                  'a' * 70000, ' lead', 'tab\tnl\ncr\rx', ']]&gt;',
                  '&lt;&amp;&quot;', '<![CDATA[<x>]]>', '\x7f\x85\xa0',
                  '�', '  '])
    body_sub(rq, b'</INSTANCE>',
             b'<PROPERTY NAME="Text" TYPE="string"><VALUE>' +
             s.encode('utf-8') + b'</VALUE></PROPERTY></INSTANCE>')
    return 'ack'


def m_versions(rq, r):
    a, v, e = r.choice([
        ('CIMVERSION', '3.0', 'badxml'), ('CIMVERSION', '1.0', 'badxml'),
        ('CIMVERSION', '2.5', 'any'), ('CIMVERSION', 'abc', 'badxml'),
        ('CIMVERSION', '', 'badxml'), ('CIMVERSION', '2.0&#10;x', 'any'),
        ('CIMVERSION', '2.0&#13;&#10;X-Injected: 1', 'any'),
        ('CIMVERSION', '2.€', 'any'),
        ('CIMVERSION', '€&#10;2.0', 'badxml'),
        ('DTDVERSION', '1.0', 'badxml'), ('DTDVERSION', '3.1', 'badxml'),
        ('DTDVERSION', '2.9', 'any'), ('DTDVERSION', 'x&#10;y', 'badxml'),
        ('DTDVERSION', '中', 'badxml'),
        ('PROTOCOLVERSION', '2.0', 'badxml'),
        ('PROTOCOLVERSION', '0.9', 'badxml'),
        ('PROTOCOLVERSION', '1.4', 'any'),
        ('PROTOCOLVERSION', 'z&#13;z', 'badxml'),
        ('PROTOCOLVERSION', '', 'badxml'),
        ('PROTOCOLVERSION', '1.\xe9', 'any'),
        ('PROTOCOLVERSION', '9.中&#13;&#10;X: y', 'badxml')])
    rq['body'] = re.sub((a + '="[^"]*"').encode(),
                        ('%s="%s"' % (a, v)).encode('utf-8'), rq['body'], 1)
    fix_len(rq)
    return e


def m_method_param(rq, r):
    k = r.choice(['unkmeth', 'unkmeth2', 'rename', 'noparam', 'dup',
                  'twoparams', 'valparam', 'emptyparam', 'noname'])
    if k == 'unkmeth':
        body_sub(rq, b'NAME="ExportIndication"', b'NAME="DeleteIndication"')
        return 'cimerr'
    if k == 'unkmeth2':
        body_sub(rq, b'NAME="ExportIndication"',
                 'NAME="Ex&#10;port€&lt;&quot;"'.encode('utf-8'))
        return 'cimerr'
    if k == 'rename':
        body_sub(rq, b'NAME="NewIndication"', b'NAME="NewIndicationX"')
        return 'cimerr'
    if k == 'noparam':
        rq['body'] = re.sub(b'<EXPPARAMVALUE.*</EXPPARAMVALUE>', b'',
                            rq['body'], flags=re.S)
        fix_len(rq)
        return 'cimerr'
    if k == 'dup':
        m = re.search(b'<EXPPARAMVALUE.*</EXPPARAMVALUE>', rq['body'], re.S)
        rq['body'] = rq['body'].replace(m.group(0), m.group(0) * 2, 1)
        fix_len(rq)
        rq['_ambiguous'] = True
        return 'any'
    if k == 'twoparams':
        m = re.search(b'<EXPPARAMVALUE.*</EXPPARAMVALUE>', rq['body'], re.S)
        other = m.group(0).replace(b'NAME="NewIndication"', b'NAME="Other"')
        rq['body'] = rq['body'].replace(m.group(0), m.group(0) + other, 1)
        fix_len(rq)
        return 'cimerr'
    if k == 'valparam':
        rq['body'] = re.sub(b'<INSTANCE .*</INSTANCE>', b'<VALUE>x</VALUE>',
                            rq['body'], flags=re.S)
        fix_len(rq)
        return 'err'
    if k == 'emptyparam':
        rq['body'] = re.sub(b'<INSTANCE .*</INSTANCE>', b'', rq['body'],
                            flags=re.S)
        fix_len(rq)
        return 'err'
    body_sub(rq, b'<EXPMETHODCALL NAME="ExportIndication">',
             b'<EXPMETHODCALL>')
    return 'badxml'


def m_structure(rq, r):
    k = r.choice(['root', 'simplereq', 'multi', 'noid', 'idchars', 'doctype',
                  'deep', 'decl16', 'declbad', 'extraattr', 'unkelem',
                  'twomsg', 'pi', 'noinstclass', 'entity'])
    b = rq['body']
    if k == 'root':
        rq['body'] = b'<?xml version="1.0"?><FOO/>'
        e = 'badxml'
    elif k == 'simplereq':
        rq['body'] = b.replace(b'SIMPLEEXPREQ', b'SIMPLEREQ')
        e = 'badxml'
    elif k == 'multi':
        rq['body'] = b.replace(b'<SIMPLEEXPREQ>', b'<MULTIEXPREQ><SIMPLEEXPREQ>'
                               ).replace(b'</SIMPLEEXPREQ>',
                                         b'</SIMPLEEXPREQ></MULTIEXPREQ>')
        e = 'err'
    elif k == 'noid':
        rq['body'] = b.replace(b' ID="1001"', b'')
        e = 'badxml'
    elif k == 'idchars':
        rq['body'] = b.replace(
            b'ID="1001"',
            'ID="a&quot;b&lt;c&#13;&#10;d€&amp;\'"'.encode('utf-8'))
        e = 'ack'
    elif k == 'doctype':
        rq['body'] = b.replace(
            b'<CIM ', b'<!DOCTYPE CIM [<!ENTITY e "eee">]><CIM ')
        e = 'any'
    elif k == 'entity':
        rq['body'] = b.replace(
            b'<CIM ', b'<!DOCTYPE CIM [<!ENTITY a "aaaaaaaaaa">'
            b'<!ENTITY b "&a;&a;&a;&a;&a;&a;&a;&a;">'
            b'<!ENTITY c "&b;&b;&b;&b;&b;&b;&b;&b;">]><CIM ').replace(
                b'</INSTANCE>', b'<PROPERTY NAME="Text" TYPE="string">'
                b'<VALUE>&c;</VALUE></PROPERTY></INSTANCE>')
        e = 'any'
    elif k == 'deep':
        d = r.choice([50, 400, 3000])
        rq['body'] = b.replace(b'<INSTANCE ', b'<X>' * d + b'</X>' * d +
                               b'<INSTANCE ')
        e = 'badxml'
    elif k == 'decl16':
        rq['body'] = b.replace(b'encoding="utf-8"', b'encoding="utf-16"')
        e = 'any'
    elif k == 'declbad':
        rq['body'] = b.replace(b'encoding="utf-8"', b'encoding="%s"' %
                               r.choice([b'klingon', b'klingon', b'cp932',
                                         b'euc-jp', b'utf-7', b'utf-32',
                                         b'latin-1', b'ascii', b'',
                                         b'big5']))
        e = 'any'
    elif k == 'extraattr':
        rq['body'] = b.replace(b'<MESSAGE ', b'<MESSAGE FOO="bar" ')
        e = 'badxml'
    elif k == 'unkelem':
        rq['body'] = b.replace(b'<INSTANCE ', b'<BOGUS/><INSTANCE ')
        e = 'badxml'
    elif k == 'twomsg':
        m = re.search(b'<MESSAGE.*</MESSAGE>', b, re.S)
        rq['body'] = b.replace(m.group(0), m.group(0) * 2)
        e = 'badxml'
    elif k == 'pi':
        rq['body'] = b.replace(b'<CIM ', b'<?foo bar?><!-- c --><CIM ')
        e = 'ack'
    else:
        rq['body'] = b.replace(b' CLASSNAME="CIM_AlertIndication"', b'')
        e = 'badxml'
    fix_len(rq)
    return e


def m_rich_instance(rq, r):
    props = (
        '<PROPERTY NAME="U8" TYPE="uint8"><VALUE>255</VALUE></PROPERTY>'
        '<PROPERTY NAME="S64" TYPE="sint64"><VALUE>-9223372036854775808'
        '</VALUE></PROPERTY>'
        '<PROPERTY NAME="R" TYPE="real64"><VALUE>1.5E+300</VALUE></PROPERTY>'
        '<PROPERTY NAME="B" TYPE="boolean"><VALUE>TRUE</VALUE></PROPERTY>'
        '<PROPERTY NAME="D" TYPE="datetime"><VALUE>20260925120000.000000+000'
        '</VALUE></PROPERTY>'
        '<PROPERTY NAME="C" TYPE="char16"><VALUE>x</VALUE></PROPERTY>'
        '<PROPERTY.ARRAY NAME="A" TYPE="string"><VALUE.ARRAY><VALUE>a</VALUE>'
        '<VALUE.NULL/><VALUE></VALUE></VALUE.ARRAY></PROPERTY.ARRAY>'
        '<PROPERTY NAME="N" TYPE="uint32"/>'
        '<PROPERTY NAME="E" TYPE="string" EmbeddedObject="instance"><VALUE>'
        '&lt;INSTANCE CLASSNAME=&quot;Emb&quot;&gt;&lt;/INSTANCE&gt;</VALUE>'
        '</PROPERTY>'
        '<PROPERTY.REFERENCE NAME="Ref" REFERENCECLASS="X"><VALUE.REFERENCE>'
        '<INSTANCENAME CLASSNAME="X"><KEYBINDING NAME="k"><KEYVALUE '
        'VALUETYPE="numeric">1</KEYVALUE></KEYBINDING></INSTANCENAME>'
        '</VALUE.REFERENCE></PROPERTY.REFERENCE>')
    bad = r.random() < 0.5
    if bad:
        old, new = r.choice([
            ('<VALUE>255</VALUE>', '<VALUE>256</VALUE>'),
            ('<VALUE>255</VALUE>', '<VALUE>INF</VALUE>'),
            ('<VALUE>255</VALUE>', '<VALUE>1e400</VALUE>'),
            ('<VALUE>TRUE</VALUE>', '<VALUE>maybe</VALUE>'),
            ('20260925120000.000000+000', '2026'),
            ('<VALUE>x</VALUE>', '<VALUE>xy</VALUE>'),
            ('TYPE="uint8"', 'TYPE="uint9"'),
            ('TYPE="uint32"/>', 'TYPE="uint32" ARRAYSIZE="x"/>'),
            ('EmbeddedObject="instance"', 'EmbeddedObject="bogus"'),
            ('&lt;INSTANCE CLASSNAME=&quot;Emb&quot;&gt;', '&lt;INSTANCE&gt;'),
            ('VALUETYPE="numeric">1<', 'VALUETYPE="numeric">one<'),
            ('VALUETYPE="numeric"', 'VALUETYPE="bogus"'),
            ('<VALUE>1.5E+300</VALUE>', '<VALUE>1.5E+300x</VALUE>'),
            ('-9223372036854775808', '-9223372036854775809')])
        props = props.replace(old, new, 1)
    body_sub(rq, b'</INSTANCE>', props.encode() + b'</INSTANCE>')
    return 'any' if bad else 'ack'


MUTATIONS = [
    (m_method_405, 3), (m_method_unknown, 2), (m_version, 2),
    (m_reqline_garbage, 2), (m_path, 1), (m_clen, 5), (m_clen_dup, 1),
    (m_ctype, 3), (m_accept, 5), (m_hdr_struct, 3), (m_body_trunc, 3),
    (m_body_bytes, 4), (m_body_unicode, 3), (m_versions, 4),
    (m_method_param, 4), (m_structure, 5), (m_rich_instance, 3)]
_MUT_BAG = [f for f, w in MUTATIONS for _ in range(w)]

_COMBINE = {  # expectation when two mutations are stacked
}


def combine(e1, e2):
    if e1 == e2:
        return e1
    if 'survive' in (e1, e2):
        return 'survive'
    if e1 == 'ack':
        return e2 if e2 in ('cimerr', 'badxml', 'hdr', '405', 'stdlib',
                            'err') and False else 'any'
    return 'any'


def gen_plan(run_seed, tier, index):
    r = stream(run_seed, 'plan')
    pol = r.choice(['sticky', 'sticky', 'uniform', 'pct'])
    params = {}
    if pol == 'sticky':
        params['sticky_p'] = r.choice([0.8, 0.95])
    if pol == 'pct':
        params['pct_d'] = 2
        params['pct_len'] = 200
    sched = {'seed': stream(run_seed, 'sched').getrandbits(48),
             'policy': pol, 'params': params, 'fine': False}
    nreq = r.choice([1, 2, 2, 3, 4, 6])
    msgs = []
    for k in range(nreq):
        if r.random() < 0.2:
            msgs.append({'ind': 'v%d' % k, 'expect': 'ack'})
            continue
        iid = 'r%d' % k
        rq = split_request(lworld.indication_request(iid))
        names = []
        f = r.choice(_MUT_BAG)
        exp = f(rq, r)
        names.append(f.__name__)
        if r.random() < 0.15:
            f2 = r.choice(_MUT_BAG)
            try:
                e2 = f2(rq, r)
                names.append(f2.__name__)
                exp = 'survive' if 'survive' in (exp, e2) else 'any'
            except (AssertionError, AttributeError, ValueError,
                    IndexError):
                exp = 'any'
        raw = join_request(rq)
        if rq.get('_raw_hdr_fix') == 'nocolon':
            raw = raw.replace(b'no colon here: \r\n', b'no colon here\r\n')
        m = {'raw': raw.decode('latin-1'), 'expect': exp, 'mut': names,
             'id': iid}
        if rq.get('_ambiguous') or (
                iid is not None and
                ('<VALUE>%s</VALUE>' % iid).encode('ascii') not in raw):
            # (a mutation may also have altered the identifier the delivery
            # is recognised by, e.g. inserted bytes into it)
            m['ambiguous'] = True
        if rq.get('_half_close') or r.random() < 0.4:
            m['half_close'] = True
        if r.random() < 0.2:
            m['pieces'] = r.choice([2, 3, 5, 17])
        if r.random() < 0.12:
            cls = r.choice(['line', 'hdr', 'body', 'zero', 'all'])
            hl = raw.find(b'\r\n')
            he = raw.find(b'\r\n\r\n')
            m['vanish_after'] = {
                'line': r.randint(0, max(0, hl)),
                'hdr': r.randint(hl, max(hl, he)),
                'body': r.randint(he, len(raw)),
                'zero': 0, 'all': len(raw)}[cls]
            m['vanish_cls'] = cls
        msgs.append(m)
    msgs.append({'ind': 'final', 'expect': 'ack'})
    senders = [{'msgs': msgs}]
    main = [['start'], ['senders', [0]], ['join_senders'], ['stop']]
    if r.random() < 0.25:
        # a second, slow sender: sends part of a request, stays silent for a
        # long (virtual) time, then completes it
        iid = 'slow'
        raw = lworld.indication_request(iid)
        he = raw.find(b'\r\n\r\n')
        cut = r.choice([r.randint(1, he), he + 4, r.randint(he + 4, len(raw) - 1)])
        senders.append({'msgs': [{'ind': iid, 'expect': 'ack',
                                  'stall': {'after': cut,
                                            'secs': r.choice([300.0, 2000.0])}}]})
        main = [['start'], ['senders', [1]], ['yield', r.randint(3, 12)],
                ['senders', [0]], ['join_senders'], ['stop']]
    return {'check': ID, 'sched': sched,
            'listener': {'http_port': PORT,
                         'queue': r.choice([0, 0, 0, 1, 2, 10])},
            'callbacks': [{'dur': r.choice([0, 0, 0.1, 5.0])}],
            'senders': senders, 'main': main}


_REQLINE_OK = re.compile(rb'^[!-~]+ [!-~]+ HTTP/1\.[0-9]\r?$')


def evaluate(plan, H):
    V = []
    probes = {}
    faults = {}

    def viol(sig, msg):
        V.append({'sig': 'C17/' + sig, 'msg': msg})

    def bump(d, k, n=1):
        d[k] = d.get(k, 0) + n

    if H['failure']:
        viol('no-progress/' + H['failure'].split(':')[0],
             'run did not finish: %s' % H['failure'])
    if H['main_exc']:
        viol('harness-main-exception', H['main_exc'])
    for rec in H['mainops']:
        if rec['result'] == 'exc':
            viol('%s-raised/%s' % (rec['op'][0], rec['exc_type']), rec['exc'])
        elif rec['op'][0] == 'stop':
            if rec['owned_alive']:
                viol('thread-left-after-stop', str(rec['owned_alive']))
            if rec['ports']:
                viol('port-left-after-stop', str(rec['ports']))
    deliv = {}
    for e in H['events']:
        if e['k'] == 'deliver':
            deliv[e['ind']] = deliv.get(e['ind'], 0) + 1
    herr = {}
    for cid, et, msg in H['handler_errors']:
        herr.setdefault(cid, []).append((et, msg))
    answered_mutated = 0
    from lxml import etree
    qsize = plan['listener'].get('queue', 0)
    for rec in H['responses']:
        m = plan['senders'][rec['sender']]['msgs'][rec['msg']]
        exp = m.get('expect', 'any')
        mut = '+'.join(m.get('mut', ['valid']))
        iid = m.get('ind') or m.get('id')
        how = rec['how']
        raw = rec.get('raw') or b''
        ctx = 'request #%d (%s, expect %s)' % (rec['msg'], mut, exp)
        if how == 'vanished':
            bump(faults, 'sender_disconnect_' + m.get('vanish_cls', '?'))
            if deliv.get(iid, 0) > 1:
                viol('delivered-twice', ctx)
            continue
        if how in ('refused', 'reset'):
            viol('listener-gone/' + how,
                 '%s: connection %s - listener no longer accepts' %
                 (ctx, how))
            continue
        bump(faults, 'mut_' + mut)
        data = m['raw'].encode('latin-1') if 'raw' in m else \
            lworld.indication_request(m['ind'])
        first = data.split(b'\n', 1)[0]
        line_ok = bool(_REQLINE_OK.match(first))
        if rec.get('cid') in herr:
            et, emsg = herr[rec['cid']][0]
            viol('handler-exception/' + et,
                 '%s: handler raised %s: %s; response bytes: %r' %
                 (ctx, et, emsg, raw[:120]))
            continue
        if exp == 'survive' or not line_ok:
            bump(probes, 'resp_survive_only')
            if raw.startswith(b'HTTP/'):
                p = lworld.parse_response(raw)
                if p and 'bare-crlf-in-header' in p['problems']:
                    viol('header-crlf', '%s: %r' % (ctx, raw[:300]))
            continue
        if not raw:
            viol('no-response', '%s: connection closed without a response'
                 % ctx)
            continue
        p = lworld.parse_response(raw)
        if p is None or 'status' not in p:
            viol('malformed-response', '%s: %r' % (ctx, raw[:300]))
            continue
        if first.upper().startswith(b'HEAD ') and not p.get('body'):
            # the response to HEAD has no body; its Content-Length
            # describes the entity that GET would have returned
            p['problems'] = [x for x in p['problems']
                             if x != 'content-length-mismatch']
        if p['problems']:
            sig = 'header-crlf' if 'bare-crlf-in-header' in p['problems'] \
                else 'malformed-response/' + p['problems'][0]
            viol(sig, '%s: %s in %r' % (ctx, p['problems'], raw[:400]))
            continue
        st = p['status']
        hd = dict(p['headers'])
        if 'mut' in m:
            answered_mutated += 1
        cls = None
        if st == 200:
            body = p['body']
            try:
                doc = etree.fromstring(body)
            except etree.XMLSyntaxError as e:
                viol('response-not-wellformed', '%s: %s: %r' %
                     (ctx, e, body[:300]))
                continue
            if not dtd().validate(doc):
                viol('response-not-dtd-valid', '%s: %s: %r' % (
                    ctx, dtd().error_log.filter_from_errors()[0],
                    body[:300]))
                continue
            er = doc.find('MESSAGE/SIMPLEEXPRSP/EXPMETHODRESPONSE')
            if er is None:
                viol('response-not-export-response', '%s: %r' %
                     (ctx, body[:300]))
                continue
            cls = 'cimerr' if er.find('ERROR') is not None else 'ack'
        elif st >= 400:
            cls = 'http'
        else:
            viol('unexpected-status/%d' % st, ctx)
            continue
        bump(probes, 'status_%d%s' % (st, '' if cls == 'http' else '_' + cls))
        if 'cimerror' in hd:
            bump(probes, 'cimerror_' + hd['cimerror'])
        # expectation
        bad = None
        if exp == 'ack' and cls == 'cimerr' and qsize and \
                b'queue is full' in p['body']:
            bump(faults, 'queue_full_answered')
        elif exp == 'ack' and cls != 'ack':
            bad = 'valid request not acknowledged'
        elif exp == 'cimerr' and cls != 'cimerr':
            bad = 'expected CIM-XML ERROR response'
        elif exp == 'badxml' and not (st == 400 and 'cimerror' in hd):
            bad = 'expected 400 with CIMError header'
        elif exp == 'hdr' and not (400 <= st < 500 and 'cimerror' in hd):
            bad = 'expected 4xx with CIMError header'
        elif exp == '405' and not (st == 405 and 'allow' in hd):
            bad = 'expected 405 with Allow header'
        elif exp == 'stdlib' and cls != 'http':
            bad = 'expected an HTTP error status'
        elif exp == 'err' and cls == 'ack':
            bad = 'invalid request was acknowledged with success'
        if bad:
            viol('wrong-response/' + exp,
                 '%s: %s; got status %d %s headers %s' %
                 (ctx, bad, st, cls, p['headers']))
        # a stalled sender on another connection must not delay this one
        if rec['sender'] == 0 and 't_sent' in rec and \
                rec['t'] - rec['t_sent'] > 60.0:
            viol('response-delayed-by-other-sender',
                 '%s: answered after %.0f virtual seconds' %
                 (ctx, rec['t'] - rec['t_sent']))
        if m.get('stall'):
            bump(faults, 'stalled_sender')
        # delivery
        if iid is not None and not m.get('ambiguous'):
            n = deliv.get(iid, 0)
            if cls == 'ack' and n != 1:
                viol('acked-delivered-%d-times' % n, ctx)
            if cls != 'ack' and n > 0:
                viol('unacked-delivered', '%s got %d %s' % (ctx, st, cls))
    for name, et, msg in H['thread_excs']:
        viol(('harness-sender-exception' if name.startswith('snd')
              else 'thread-died/' + et), '%s %s %s' % (name, et, msg))
    for lvl, msg in H['logrecs']:
        if msg.startswith('LOGFORMAT-ERROR'):
            viol('log-format-error', msg)
    seen = set()
    out = []
    for v in V:
        if v['sig'] not in seen:
            seen.add(v['sig'])
            out.append(v)
    return out, probes, faults, answered_mutated >= 1


def execute(plan):
    H = lworld.run_world(plan)
    V, probes, faults, nontrivial = evaluate(plan, H)
    return {'violations': V, 'fingerprint': H['fingerprint'],
            'nontrivial': nontrivial, 'probes': probes, 'faults': faults,
            'sim_seconds': H['now'], 'steps': H['steps'],
            'policy': plan['sched']['policy']}


def sample(plan, res):
    p = copy.deepcopy(plan)
    for m in p['senders'][0]['msgs']:
        if 'raw' in m and len(m['raw']) > 600:
            m['raw'] = m['raw'][:600] + '...[%d bytes]' % len(m['raw'])
    return {'plan': p, 'steps': res['steps'],
            'fingerprint': res['fingerprint']}


def shrink_candidates(plan):
    if len(plan['senders']) > 1:
        p = copy.deepcopy(plan)
        del p['senders'][1]
        p['main'] = [['start'], ['senders', [0]], ['join_senders'], ['stop']]
        yield p
    msgs = plan['senders'][0]['msgs']
    for i in range(len(msgs) - 1, -1, -1):
        p = copy.deepcopy(plan)
        del p['senders'][0]['msgs'][i]
        yield p
    for i, m in enumerate(msgs):
        for key in ('pieces', 'vanish_after', 'half_close'):
            if key in m:
                p = copy.deepcopy(plan)
                del p['senders'][0]['msgs'][i][key]
                yield p
    if plan['callbacks'][0].get('dur'):
        p = copy.deepcopy(plan)
        p['callbacks'][0]['dur'] = 0
        yield p
    if plan['sched']['policy'] != 'sticky' or \
            plan['sched']['params'].get('sticky_p') != 1.0:
        p = copy.deepcopy(plan)
        p['sched']['policy'] = 'sticky'
        p['sched']['params'] = {'sticky_p': 1.0}
        yield p
