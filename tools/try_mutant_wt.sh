#!/bin/sh
# usage: try_mutant_wt.sh <dir with patch.diff [demo.py]> <check id> [more ./check args]
# Like try_mutant.sh, but works in a scratch worktree of /repo (default
# /tmp/mutrepo, created with: git -C /repo worktree add /tmp/mutrepo HEAD)
# so that /repo itself stays untouched; the check runs with VERIF_REPO.
wt="${MUT_WT:-/tmp/mutrepo}"
d="$1"; shift; cid="$1"; shift
cd "$wt" || exit 2
git checkout -q --detach "$(git -C /repo rev-parse HEAD)" || exit 2
if ! git diff --quiet; then echo "$wt has local changes"; exit 2; fi
demo=""
[ -f "$d/demo.py" ] && demo="$d/demo.py"
[ -f "$d/test_demo.py" ] && demo="$d/test_demo.py"
if [ -n "$demo" ]; then
  (cd "$wt" && PYTHONPATH="$wt" timeout 300 /venv/bin/python "$demo" "$wt" >/tmp/demo_clean.out 2>&1); echo "demo on clean tree: exit $?"
fi
git apply "$d/patch.diff" || { echo "patch does not apply"; exit 2; }
if [ -n "$demo" ]; then
  (cd "$wt" && PYTHONPATH="$wt" timeout 300 /venv/bin/python "$demo" "$wt" >/tmp/demo_mut.out 2>&1); echo "demo on mutated tree: exit $?"
fi
cd /verif && VERIF_REPO="$wt" ./check "$cid" "$@" 2>&1 | grep -E "^VIOLATION|^KNOWN|signature|HARNESS|runs," | cut -c1-300
cd "$wt" && git checkout -- . && git status --short | head -3
