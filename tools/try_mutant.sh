#!/bin/sh
# usage: try_mutant.sh <dir with patch.diff [demo.py]> <check id> [more ./check args]
# Applies the patch to /repo, runs the demo (if any) and the check, restores /repo.
d="$1"; shift; cid="$1"; shift
cd /repo || exit 2
if ! git diff --quiet; then echo "/repo has local changes"; exit 2; fi
demo=""
[ -f "$d/demo.py" ] && demo="$d/demo.py"
[ -f "$d/test_demo.py" ] && demo="$d/test_demo.py"
if [ -n "$demo" ]; then
  (cd /repo && timeout 300 /venv/bin/python "$demo" >/tmp/demo_clean.out 2>&1); echo "demo on clean tree: exit $?"
fi
git apply "$d/patch.diff" || { echo "patch does not apply"; exit 2; }
if [ -n "$demo" ]; then
  (cd /repo && timeout 300 /venv/bin/python "$demo" >/tmp/demo_mut.out 2>&1); echo "demo on mutated tree: exit $?"
fi
cd /verif && ./check "$cid" "$@" 2>&1 | grep -E "^VIOLATION|^KNOWN|signature|HARNESS|runs," | cut -c1-300
cd /repo && git checkout -- . && git status --short | head -3
