#!/usr/bin/env python3
"""Regenerates /verif/MANIFEST.json from the table below, so that the file is
always valid and `not_applicable` always covers every property that is not
claimed."""
import os
import json

HERE = os.path.dirname(os.path.dirname(os.path.abspath(__file__)))

BASELINE_OFF = ("cd /repo && /venv/bin/python -m pytest -ra -q "
                "-p no:cacheprovider --timeout=900 "
                "--continue-on-collection-errors")

NA_PURE = {
    'C01': 'encode->parse->encode of one object is a pure function of that '
           'object; no schedule, clock, fault or history for a simulator to '
           'control (would be input generation under another name)',
    'C05': 'equality/hash/copy laws are pure algebraic properties of '
           'in-memory values; nothing concurrent, timed or faulty is involved',
    'C06': 'range checks and print/parse round trips of CIM data types are '
           'pure functions of a value',
    'C07': 'to_wbem_uri/from_wbem_uri are pure string<->object functions',
    'C08': 'tomof() followed by compilation is a composition of two pure '
           'functions of one object; no fault or history dimension',
    'C20': 'ValueMapping builds lookup tables from qualifier arrays and '
           'answers pure queries',
}

# id -> (engine, category, level text, level note, technique)
CHECKS = {
    'C16': ('listener', 'exploration',
            'seeded search over thread interleavings, start/stop/restart '
            'scripts and sender/callback faults of the real WBEMListener; a '
            'clean batch is evidence, not proof',
            'trusts the Sim* primitives to model queue.Queue/threading '
            'semantics; pre-emption only at primitives, socket I/O, callback '
            'entry/exit and (fine mode) _listener.py line boundaries; TLS is '
            'a stub (named certificates, plain simulated socket), so HTTPS '
            'covers the two-server start/stop logic only',
            'deterministic simulation: seeded thread scheduler + fault '
            'injection, history oracle'),
    'C17': ('listener', 'exploration',
            'seeded search over request byte sequences (mutation catalogue '
            'over request line, headers, Content-Length, CIM-XML body), '
            'sender disconnect points and request histories against the real '
            'listener stack; every response is parsed and DTD-validated',
            'request lines the stdlib rejects / treats as HTTP/0.9 are only '
            'required not to harm the listener; the mutation catalogue, not '
            'the whole byte space, is sampled; Sim* primitives trusted as in '
            'C16',
            'deterministic simulation: simulated sockets with byte-level '
            'request faults and disconnects, response oracle + history '
            'oracle'),
    'C04': ('wire', 'exploration',
            'differential execution of seeded operation programs (all public '
            'operation methods, valid and invalid arguments, generated '
            'repositories, default-namespace settings) on the real HTTP/'
            'CIM-XML client path against a simulated server versus the '
            'direct object path; result, decoded-request and final-'
            'repository equality',
            'the server envelope (HTTP framing, IPARAMVALUE typing table, '
            'response element choice) is a stub written from DSP0200; '
            'normalisations n1 (None == DSP0201 default), n2 (server host '
            'where HOST is mandatory), n3 (SCOPE ANY) are applied; objects '
            'are sent with explicit qualifier flavors; 25 % of the runs use '
            'a separate fault configuration (the reply to one request is '
            'lost after execution: the call must raise ConnectionError / '
            'TimeoutError and the request must reach the server exactly '
            'once); operations are repeated with the same argument objects',
            'deterministic simulation: simulated transport + simulated '
            'server, differential oracle against a reference execution'),
    'C02': ('wire', 'exploration',
            'seeded search over operation programs x reply faults: the '
            'plausible reply of the simulated server is damaged at transport '
            '(refuse, reset, EOF, stall, fragments), HTTP (status, headers, '
            'chunking, encodings), byte and CIM-XML structure level; every '
            'call must return its documented result type or raise a '
            'pywbem.Error, populate request/response data of parse errors '
            'and terminate',
            'the mutation vocabulary (derived from the DTD and the '
            'attributes the parser converts) is sampled, not the whole byte '
            'space; replies <= ~100 KiB; a 20 s real-time alarm per call '
            'backs the termination clause',
            'deterministic simulation: simulated transport with fault '
            'injection on the reply stream, outcome-class oracle'),
    'C19': ('wire', 'exploration',
            'paired execution: the same seeded world (repository, operation '
            'program, reply faults) runs bare and under a generated observer '
            'configuration (loggers with every detail level incl. integers, '
            'recorders, statistics, debug); outcomes, bytes sent, '
            'last_raw_request/reply, statistics counts and password secrecy '
            'are compared',
            'determinism of the world makes the observers the only '
            'difference (the exchanged request bytes of both executions are '
            'compared as a cross-check); statistics clause skipped for '
            'programs with Iter operations',
            'deterministic simulation: replay of one seeded world under '
            'observer configurations, differential oracle'),
    'C14': ('store', 'exploration',
            'model-based history machine: interleaved open/pull/close '
            'sessions over all 7 Open operations with arbitrary '
            'MaxObjectCount sequences, stale/fabricated/foreign/wrong-kind '
            'contexts, repository mutation, namespace removal and pull '
            'switch-off during sessions; per-session reference list from the '
            'traditional operation; exactly-once, limits, eos, progress, '
            'refusal and leak oracles',
            'direct object path of the mock (no XML); the mock has no '
            'enumeration timeout, so no clock dimension exists; set-valued '
            'association results are compared as multisets',
            'deterministic simulation: seeded operation/fault histories '
            'against an executable reference model'),
    'C15': ('store', 'exploration',
            'seeded histories of Iter calls on one connection x '
            'use_pull_operations x server pull capability (enabled, '
            'disabled, toggled) x MaxObjectCount x consumption pattern '
            '(exhaust, close, drop, alternate) x call-level faults (CIM '
            'error, connection error, timeout, lost reply) in direct and '
            'wire worlds; equality with the traditional result on a fresh '
            'connection, documented errors, sticky-knowledge and context-'
            'leak oracles',
            'parameters existing only on the traditional side are left at '
            'None; results compared as multisets modulo host; contexts whose '
            'creating or final reply was lost are not counted as leaks; two '
            'open known findings (sticky pull flag) are reported as '
            'KNOWN-FINDING',
            'deterministic simulation: seeded configuration/history/fault '
            'search with a reference execution on a fresh connection'),
    'C03': ('wire', 'exploration',
            'narrow claim (transport seam only): every request that reaches '
            'the simulated socket from seeded operation programs with '
            'adversarial argument strings is checked for UTF-8, XML 1.0 '
            'well-formedness, DTD validity (lxml + DSP0203 DTD), '
            'Content-Length and agreement of CIMMethod/CIMObject headers '
            'with the body; listener responses are validated in C17',
            'tocimxml()/tocimxmlstr() of arbitrary objects is a pure '
            'function and not claimed; no schedule or fault is involved '
            '(weakest fit of the claimed properties); leading/trailing '
            'blanks of header values are not significant in HTTP',
            'deterministic simulation (degenerate): seeded operation '
            'programs observed at the simulated transport, DTD oracle'),
    'C18': ('store', 'exploration',
            'seeded multi-manager histories on 1-2 mock WBEM servers with '
            'Interop namespace: interleaved add/remove of destinations, '
            'filters, subscriptions (owned/permanent), duplicates, '
            'remove_server/remove_all_servers/__exit__, foreign instances, '
            'client crash at the k-th request inside an operation and '
            'restart with the same ID; every step is judged by the legality '
            'of the server-store diff and by owned/all lists against the '
            'reference model and the server',
            'manager IDs are sampled from a pool with regex metacharacters '
            'and prefix relations; managers remove only their own or '
            'permanent instances; user-chosen Names exactly of the owned '
            'form of an ID in use are excluded; one open known finding',
            'deterministic simulation: seeded multi-client histories with '
            'crash/restart fault injection against a reference model'),
    'C10': ('store', 'exploration',
            'model-based multi-client histories of instance operations with '
            'collision-biased arguments (existing, deleted, duplicate, '
            'case-variant, key-reordered paths, partial instances, '
            'PropertyList subsets, wrong types, unknown classes/namespaces) '
            'against a reference dict keyed by (namespace, class, '
            'keybindings); after every call every passed and returned object '
            'is mutated in place (aliasing fault); cross-invariant: '
            'EnumerateInstanceNames over all classes == model key set',
            'only what the documentation fixes is compared; when several '
            'rejection reasons apply any documented status is accepted; '
            'association instances are left to C13',
            'deterministic simulation: seeded multi-client histories with '
            'aliasing fault injection against an executable reference model'),
    'C13': ('store', 'exploration',
            'cross-invariants inside the store machine: histories create / '
            'modify / delete association instances and their end points '
            '(binary/ternary, subclasses, self associations, cross-namespace, '
            'dangling and NULL ends); after every mutating step sampled '
            '(source, Role, ResultRole, AssocClass, ResultClass) queries are '
            'checked: Names == paths of full results (instance, class, Open, '
            'Iter), agreement with the association instances of the model, '
            'monotonicity, symmetry, case-insensitivity',
            'objects other than the source are judged; dangling ends may or '
            'may not be reported; association instances are created in the '
            'namespace of one of their ends',
            'deterministic simulation: seeded histories with cross-invariant '
            'oracles against an executable reference model'),
    'C11': ('store', 'fault_enumeration',
            'per run one generated starting state (class trees, instances, '
            'associations over 1-3 namespaces reached by a random history '
            'incl. association instances without shadow copies) and one '
            'batch of 2-8 elements; enumerated exhaustively: every position '
            'k x every rejection reason of the element kind x '
            'compile_mof_string / compile_mof_file / add_cimobjects, '
            'compile_schema_classes with an invalid last class, a missing '
            'include at every position, every single-object operation with '
            'every documented rejection reason (incl. multi-namespace '
            'associations and the CIM_Namespace provider); oracle: the '
            'sorted dump of the complete repository is identical before and '
            'after every raising call',
            'a case in which the call does not raise is counted, not '
            'judged; which exception type is raised is not part of C11',
            'deterministic simulation: seeded states and batches, '
            'exhaustive enumeration of (failure position x rejection '
            'reason) per run, repository-dump equality oracle'),
    'C12': ('store', 'exploration',
            'model-based histories against an independent reference '
            'resolver: a generated forest (3-12 classes, depth <= 5, fan-out '
            '<= 4, overriding and non-overriding properties / methods / '
            'parameters, qualifier declarations with the four ToSubclass/'
            'Restricted x Enable/DisableOverride flavor combinations at '
            'every level) is built on three replicas (CreateClass in two '
            'topological orders, MOF compile) that must answer identically; '
            'then a history of create (CreateClass / MOF / add_cimobjects), '
            'ModifyClass, rejected ModifyClass, DeleteClass, CreateInstance '
            'steps with case-variant names and re-created names; after every '
            'step GetClass (full and sampled flag combinations), '
            'EnumerateClasses, EnumerateClassNames, EnumerateInstances and '
            'EnumerateInstanceNames are compared with the model',
            'propagated / LocalOnly treatment of overriding elements is not '
            'judged; overriding methods keep the parameter names; flavors '
            'and propagated of qualifier values are compared between '
            'replicas only; one open known finding (class-level qualifiers '
            'are not handed down)',
            'deterministic simulation (history search): seeded class-forest '
            'histories on three replicas against an executable reference '
            'resolver'),
    'C09': ('mof', 'exploration',
            'histories of 2-6 compiles on one MOFCompiler / one mock '
            'connection over a generated file tree (include files to depth '
            '3, search path with qualifiers.mof and a class chain): valid '
            'units, one token-level damage per damaged compile (15 kinds '
            'incl. unterminated strings/comments, bad escapes, huge numbers, '
            'malformed pragmas, undefined aliases, type/value mismatches, '
            'broken embedded instance values), repository faults (9 methods '
            'x k-th call x CIM status 1..28, once or persistent) through a '
            'FaultyRepo wrapper, include faults (self / mutual / missing '
            'include, directory, non UTF-8, empty, BOM, CRLF); the history '
            'runs in a forked child so that a compile that does not '
            'terminate is killed and reported; oracles: exception type, '
            'position inside the named file, recovery = the final valid unit '
            'gives the same repository as a fresh compiler on a copy',
            'totality over arbitrary text is only sampled as far as the '
            'damaged units reach; any OSError is accepted; recovery is '
            'judged only after at least one failed compile; positions with '
            'file None in units with embedded instance values are not judged',
            'deterministic simulation: seeded compile histories with '
            'repository / include-tree fault injection, hang detection by a '
            'supervising parent process, recovery against a fresh twin'),
}

ENGINES = [
    {'name': 'listener', 'path': 'simkit/lworld.py',
     'kind_free_text': 'seeded baton-passing thread scheduler with virtual '
     'time; real _listener.py + private stdlib socketserver/http.server on '
     'simulated sockets'},
    {'name': 'wire', 'path': 'simkit/wire.py',
     'kind_free_text': 'real WBEMConnection + requests + urllib3 + '
     'http.client on a simulated socket; simulated WBEM server (real pywbem '
     'parser + pywbem_mock providers, stub envelope) with a byte-level '
     'fault layer'},
    {'name': 'store', 'path': 'simkit/store.py',
     'kind_free_text': 'model-based history machine over FakedWBEMConnection '
     'with reference models and fault enumeration'},
    {'name': 'mof', 'path': 'simkit/mofgen.py',
     'kind_free_text': 'MOF compile histories against a fault-injecting '
     'repository handle and a simulated include tree'},
]


def main():
    props = [json.loads(l) for l in open(os.path.join(HERE,
                                                      'properties.jsonl'))]
    checks = []
    na = []
    for p in props:
        pid = p['id']
        if pid in CHECKS:
            eng, cat, text, note, tech = CHECKS[pid]
            checks.append({
                'property_id': pid,
                'quick_cmd': './check %s --tier quick' % pid,
                'thorough_cmd': './check %s --tier thorough' % pid,
                'evidence_file': 'evidence/%s.json' % pid,
                'replay_cmd_template': './check %s --replay {path}' % pid,
                'engine': eng,
                'level_claimed': {'category': cat, 'text': text,
                                  'design_ref': 'DESIGN.md section 6/' + pid},
                'level_note': note,
                'technique': tech,
            })
        elif pid in NA_PURE:
            na.append({'property_id': pid, 'reason': NA_PURE[pid]})
        else:
            na.append({'property_id': pid, 'reason':
                       'not claimed yet: the simulation check for this '
                       'property (planned in DESIGN.md section 6/%s) has not '
                       'been built/validated in this tree yet' % pid})
    engines = []
    for e in ENGINES:
        served = [c['property_id'] for c in checks if c['engine'] == e['name']]
        if served:
            engines.append(dict(e, serves_properties=served))
    doc = {
        'version': 1,
        'setup_cmd': './check --setup',
        'hooks': {
            'guard': 'PYWBEM_VERIF',
            'enable': 'not needed: no source hooks were added to /repo; '
                      'every seam is a module-level name or an injected '
                      'object that the simulator substitutes from outside',
            'baseline_off_cmd': BASELINE_OFF,
            'source_commits': [],
            'add_only': True,
        },
        'engines': engines,
        'checks': checks,
        'not_applicable': na,
        'notes': 'All checks: ./check <ID> --tier quick|thorough, env '
                 'VERIF_SEED / VERIF_TIER / VERIF_BUDGET_S / VERIF_WORKERS / '
                 'VERIF_REPO honoured; exit 0 clean (KNOWN-FINDING lines '
                 'allowed), 1 VIOLATION, 2 HARNESS-ERROR. Defects repaired in '
                 '/repo by "fix:" commits are listed in known_findings.json.',
    }
    with open(os.path.join(HERE, 'MANIFEST.json'), 'w') as f:
        json.dump(doc, f, indent=1)
        f.write('\n')
    print('claimed', [c['property_id'] for c in checks])
    print('not applicable', [n['property_id'] for n in na])


if __name__ == '__main__':
    main()
