#!/usr/bin/env python3
"""Regenerates the machine-derived tables of DESIGN.md (between the
<!-- BEGIN:x --> / <!-- END:x --> markers) from known_findings.json,
seeded/*/meta.json and evidence/*.json."""
import os
import re
import json
import glob

HERE = os.path.dirname(os.path.dirname(os.path.abspath(__file__)))


def esc(s):
    return str(s).replace('|', '\\|').replace('\n', ' ')


def findings():
    k = json.load(open(os.path.join(HERE, 'known_findings.json')))
    out = ['| property | status | signature | what fails | repair / reason |',
           '|---|---|---|---|---|']
    for e in sorted(k, key=lambda e: (e['property'], e['status'] != 'open',
                                      e['signature'])):
        line = e['line']
        line = re.sub(r'^(KNOWN-FINDING: property=\S+ |fixed: property=\S+ '
                      r'\(commit [^)]*\)\)? ?)', '', line)
        what = line
        why = e.get('commit', '') if e['status'] == 'fixed' else \
            e.get('description', '')
        why = why.replace("see git log: ", 'fix: ')
        out.append('| %s | %s | `%s` | %s | %s |' % (
            e['property'], e['status'], esc(e['signature']), esc(what)[:400],
            esc(why)[:400]))
    return '\n'.join(out)


def seeded():
    out = ['| id | change (one line) | needs | detected by (signatures) | '
           'note |', '|---|---|---|---|---|']
    for d in sorted(glob.glob(os.path.join(HERE, 'seeded', '*'))):
        mp = os.path.join(d, 'meta.json')
        if not os.path.exists(mp):
            continue
        m = json.load(open(mp))
        out.append('| %s | %s | %s | %s | %s |' % (
            os.path.basename(d), esc(m.get('title', ''))[:220],
            esc(m.get('needs', ''))[:260],
            esc('; '.join(m.get('detected_by', [])))[:260],
            esc(m.get('note', ''))[:220]))
    return '\n'.join(out)


def evidence():
    out = ['| id | tier | runs | evaluations | non-trivial | distinct | '
           'wall s | runs/h | fault kinds fired (top) |',
           '|---|---|---|---|---|---|---|---|---|']
    for f in sorted(glob.glob(os.path.join(HERE, 'evidence', 'C*.json'))):
        e = json.load(open(f))
        c = e.get('coverage', {})
        fc = c.get('fault_counts', {}) or {}
        top = ', '.join('%s=%s' % kv for kv in sorted(
            fc.items(), key=lambda kv: -kv[1])[:6])
        out.append('| %s | %s | %s | %s | %s | %s | %s | %s | %s |' % (
            e['property_id'], e.get('tier'), c.get('runs'),
            c.get('evaluations'), c.get('nontrivial_runs'),
            c.get('distinct_nontrivial'), e.get('wall_s'),
            c.get('runs_per_hour'), esc(top)[:300]))
    return '\n'.join(out)


def main():
    p = os.path.join(HERE, 'DESIGN.md')
    s = open(p).read()
    for name, fn in (('findings', findings), ('seeded', seeded),
                     ('evidence', evidence)):
        b = '<!-- BEGIN:%s -->' % name
        e = '<!-- END:%s -->' % name
        if b in s and e in s:
            i = s.index(b) + len(b)
            j = s.index(e)
            s = s[:i] + '\n' + fn() + '\n' + s[j:]
    open(p, 'w').write(s)


if __name__ == '__main__':
    main()
