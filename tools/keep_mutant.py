#!/usr/bin/env python3
"""keep_mutant.py <src dir> <seeded id> <detected by: 'C17:signature;...' or 'missed'> [note]
Copies patch.diff / demo / meta.json of a verified seeded change into
/verif/seeded/<id>/ and records what was run against it."""
import sys, os, json, shutil
src, sid, det = sys.argv[1:4]
note = sys.argv[4] if len(sys.argv) > 4 else ''
dst = os.path.join('/verif/seeded', sid)
os.makedirs(dst, exist_ok=True)
for f in os.listdir(src):
    if f in ('patch.diff', 'demo.py', 'test_demo.py'):
        shutil.copy(os.path.join(src, f), os.path.join(dst, f))
meta = json.load(open(os.path.join(src, 'meta.json')))
meta['verified'] = ('patch applies to /repo HEAD; demo exits 0 on the clean '
                    'tree and non-zero with the patch (tools/try_mutant.sh)')
meta['detected_by'] = [d for d in det.split(';') if d]
if note:
    meta['note'] = note
json.dump(meta, open(os.path.join(dst, 'meta.json'), 'w'), indent=1)
print('kept', dst, meta['detected_by'])
