#!/usr/bin/env python3
"""baseline_diff.py <junit.xml>: list the tests of BASELINE.json stable_pass
that did not pass in the given junit file."""
import sys, json, xml.etree.ElementTree as ET
bl = json.load(open('/root/.vp/BASELINE.json'))
stable = bl.get('stable_pass')
if not isinstance(stable, list):
    import glob
    print('stable_pass is not a list:', type(stable), stable if not isinstance(stable, dict) else list(stable)[:3])
    sys.exit(2)
stable = set(stable)
res = {}
for tc in ET.parse(sys.argv[1]).getroot().iter('testcase'):
    name = '%s::%s' % (tc.get('classname'), tc.get('name'))
    bad = [c.tag for c in tc if c.tag in ('failure', 'error', 'skipped')]
    res[name] = bad[0] if bad else 'passed'
missing = [t for t in stable if res.get(t) != 'passed']
print('stable:', len(stable), 'in junit:', len(res), 'not passed:', len(missing))
for t in sorted(missing)[:60]:
    print(' ', res.get(t, 'absent'), t)
