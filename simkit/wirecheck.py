"""Oracle for what pywbem puts on the wire: a request observed at the
transport seam must be a well-formed XML 1.0 document, valid against the
DSP0203 DTD, with CIM extension headers that agree with the body."""
import os
import urllib.parse

from lxml import etree

from . import REPO, wire

_DTD = None


def dtd():
    global _DTD  # pylint: disable=global-statement
    if _DTD is None:
        with open(os.path.join(REPO, 'tests', 'dtd',
                               'DSP0203_2.3.1.dtd'), 'rb') as f:
            _DTD = etree.DTD(f)
    return _DTD


def _hdr(hdrs, name):
    v = hdrs.get(name.lower())
    if v is None:
        return None
    try:
        return urllib.parse.unquote(v, encoding='utf-8', errors='strict')
    except UnicodeDecodeError:
        return v


def _same(hv, bv):
    """Header value vs body value: 'eq', 'ws' (equal only after the XML
    attribute-value normalisation of TAB/LF/CR to a blank) or 'ne'."""
    if hv is None or bv is None:
        return 'ne'
    if hv.strip() == bv.strip():
        return 'eq'
    tr = {9: 32, 10: 32, 13: 32}
    if hv.translate(tr).strip() == bv.translate(tr).strip():
        return 'ws'
    return 'ne'


def validate_request(raw):
    """raw = full HTTP request bytes.  Returns list of (kind, detail)."""
    problems = []
    line, hdrs, body = wire.split_http_request(raw)
    cl = hdrs.get('content-length')
    if cl is None or not cl.isdigit() or int(cl) != len(body):
        problems.append(('content-length', 'Content-Length %r, body has %d '
                         'bytes' % (cl, len(body))))
    try:
        body.decode('utf-8')
    except UnicodeDecodeError as e:
        problems.append(('not-utf8', str(e)))
        return problems
    try:
        doc = etree.fromstring(body, etree.XMLParser(resolve_entities=False,
                                                     huge_tree=True))
    except etree.XMLSyntaxError as e:
        problems.append(('not-wellformed', str(e)[:200]))
        return problems
    if not dtd().validate(doc):
        err = dtd().error_log.filter_from_errors()
        msg = str(err[0].message) if err else '?'
        el = msg.split()[1] if msg.startswith('Element ') else '?'
        problems.append(('dtd-invalid', '%s | %s' % (el, msg[:300])))
    # headers vs body
    call = doc.find('.//IMETHODCALL')
    kind = 'imethod'
    if call is None:
        call = doc.find('.//METHODCALL')
        kind = 'method'
    if call is None:
        call = doc.find('.//EXPMETHODCALL')
        kind = 'export'
    if call is None:
        return problems
    name = call.get('NAME')
    hname = _hdr(hdrs, 'CIMMethod' if kind != 'export' else 'CIMExportMethod')
    k = _same(hname, name)
    if k != 'eq':
        problems.append(('cimmethod-header' if k == 'ne' else
                         'attr-whitespace', 'header %r, body NAME %r' %
                         (hname, name)))
    if kind == 'export':
        return problems
    hobj = _hdr(hdrs, 'CIMObject')
    lnp = call.find('.//LOCALNAMESPACEPATH')
    ns = '/'.join(n.get('NAME', '') for n in lnp.findall('NAMESPACE')) \
        if lnp is not None else None
    if kind == 'imethod':
        k = _same(hobj, ns)
        if k != 'eq':
            problems.append(('cimobject-header' if k == 'ne' else
                             'attr-whitespace', 'header %r, body namespace '
                             '%r' % (hobj, ns)))
    else:
        # local class/instance path: compare namespace and class name
        cn = call.find('.//LOCALCLASSPATH/CLASSNAME')
        if cn is None:
            cn = call.find('.//LOCALINSTANCEPATH/INSTANCENAME')
            cname = cn.get('CLASSNAME') if cn is not None else None
        else:
            cname = cn.get('NAME')
        if hobj is None or ns is None or cname is None:
            problems.append(('cimobject-header', 'header %r, body target '
                             '%r:%r' % (hobj, ns, cname)))
        else:
            pre = ns + ':' + cname
            k = _same(hobj[:len(pre)], pre)
            if k == 'ne':
                tr = {9: 32, 10: 32, 13: 32}
                k = 'ws' if hobj.translate(tr).startswith(
                    pre.translate(tr)) else 'ne'
            if k != 'eq':
                problems.append(('cimobject-header' if k == 'ne' else
                                 'attr-whitespace', 'header %r, body target '
                                 '%r:%r' % (hobj, ns, cname)))
    return problems
