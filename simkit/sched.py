"""Deterministic baton-passing scheduler with virtual time.

Every simulated task is a real OS thread parked on its own semaphore; at any
instant at most one of them is un-parked, and *which* one is decided here from
a seeded PRNG (or from a forced list of decisions when replaying/shrinking).
Blocking primitives (see shims.py) call yield_() / block(); when nothing is
runnable the virtual clock jumps to the earliest deadline.

One Scheduler object = one run.  The module-global CUR is the scheduler of the
run in progress in this process.
"""
import sys
import random
import hashlib
import threading as _rt

CUR = None


class SimAbort(BaseException):
    """Raised inside parked tasks to unwind them at the end of a run."""


class HarnessTimeout(Exception):
    """Real-time watchdog fired: the harness (or code without any scheduling
    point) hung.  Never a VIOLATION, never exit 0."""


class Task:
    __slots__ = ('tid', 'name', 'fn', 'go', 'done', 'started', 'wait_pred',
                 'deadline', 'timed_out', 'exc', 'prio', 'thread', 'label',
                 'listener_owned')

    def __init__(self, tid, name, fn):
        self.tid = tid
        self.name = name
        self.fn = fn
        self.go = _rt.Semaphore(0)
        self.done = False
        self.started = False
        self.wait_pred = None
        self.deadline = None
        self.timed_out = False
        self.exc = None
        self.prio = 0.0
        self.thread = None
        self.label = ''
        self.listener_owned = False


class Scheduler:
    """
    policy: 'uniform' | 'sticky' | 'pct'
    params: dict: sticky_p, pct_d, pct_len, timer_preempt_p
    forced: optional list of decisions (tid, or -1 = "stay on current task if
            runnable else lowest tid"); used for replay and schedule shrinking.
            When the list is exhausted, -1 behaviour applies.
    """

    def __init__(self, seed, policy='uniform', params=None, forced=None,
                 max_steps=20000, max_time=100000.0, wall_timeout=30.0,
                 fine_files=None, keep_log=True):
        self.rng = random.Random(seed)
        self.policy = policy
        self.params = params or {}
        self.forced = forced
        self.max_steps = max_steps
        self.max_time = max_time
        self.wall_timeout = wall_timeout
        self.fine_files = frozenset(fine_files or ())
        self.now = 0.0
        self.tasks = []
        self.cur = None
        self.steps = 0
        self.switches = 0
        self.choices = []
        self.failure = None          # 'deadlock:...' | 'step-cap' | 'time-cap'
        self.finished = False
        self.aborting = False
        self.main_done = _rt.Semaphore(0)
        self.abort_ack = _rt.Semaphore(0)
        self.keep_log = keep_log
        self.log = []
        self._h = hashlib.sha1()
        self.seq = 0
        self.timer_fires = 0
        self.timer_preempts = 0
        if policy == 'pct':
            d = int(self.params.get('pct_d', 2))
            n = int(self.params.get('pct_len', 400))
            self._pct_points = set(self.rng.randrange(1, n) for _ in range(d))
        else:
            self._pct_points = ()

    # ------------------------------------------------------------- logging
    def note(self, label):
        """Append an event to the event log (no PRNG draw, no clock read)."""
        self.seq += 1
        name = self.cur.name if self.cur is not None else '-'
        self._h.update(name.encode())
        self._h.update(b'|')
        self._h.update(label.encode('utf-8', 'backslashreplace'))
        self._h.update(b'\n')
        if self.keep_log:
            self.log.append((self.seq, name, label))
        return self.seq

    def fingerprint(self):
        return self._h.hexdigest()[:16]

    # --------------------------------------------------------- task control
    def spawn(self, name, fn, listener_owned=False):
        t = Task(len(self.tasks), name, fn)
        t.listener_owned = listener_owned
        t.prio = self.rng.random() if self.policy == 'pct' else 0.0
        self.tasks.append(t)

        def boot():
            t.go.acquire()
            if self.aborting:
                t.done = True
                self.abort_ack.release()
                return
            t.started = True
            if self.fine_files:
                sys.settrace(self._trace_call)
            try:
                fn()
            except SimAbort:
                pass
            except BaseException as e:  # pylint: disable=broad-except
                t.exc = e
            finally:
                sys.settrace(None)
            t.done = True
            if self.aborting:
                self.abort_ack.release()
                return
            if t.tid == 0:
                # main task finished: the run is over
                self._finish()
                return
            try:
                self._switch(t, finished=True)
            except SimAbort:
                pass

        t.thread = _rt.Thread(target=boot, name='sim-' + name, daemon=True)
        t.thread.start()
        return t

    def _trace_call(self, frame, event, arg):
        if frame.f_code.co_filename in self.fine_files:
            return self._trace_line
        return None

    def _trace_line(self, frame, event, arg):
        if event == 'line' and not self.aborting and not self.finished:
            self.yield_('L%d' % frame.f_lineno)
        return self._trace_line

    def _is_runnable(self, t):
        if t.done:
            return False
        if t.wait_pred is None:
            return True
        if t.wait_pred():
            return True
        if t.deadline is not None and t.deadline <= self.now:
            return True
        return False

    def _policy_pick(self, runnable):
        # forced decisions (replay / shrinking)
        if self.forced is not None:
            i = len(self.choices)
            want = self.forced[i] if i < len(self.forced) else -1
            if want >= 0:
                for t in runnable:
                    if t.tid == want:
                        return t
            if self.cur in runnable:
                return self.cur
            return runnable[0]
        if len(runnable) == 1:
            return runnable[0]
        pol = self.policy
        if pol == 'sticky':
            if self.cur in runnable and \
                    self.rng.random() < self.params.get('sticky_p', 0.8):
                return self.cur
            return self.rng.choice(runnable)
        if pol == 'pct':
            if self.steps in self._pct_points and self.cur is not None:
                self.cur.prio = -self.steps  # drop below everything else
            best = runnable[0]
            for t in runnable[1:]:
                if t.prio > best.prio:
                    best = t
            return best
        return self.rng.choice(runnable)

    def _pick(self):
        while True:
            runnable = [t for t in self.tasks if self._is_runnable(t)]
            if runnable:
                # A timer may fire although other tasks could still run (models
                # arbitrarily slow threads).  Recorded as decision -2 so that a
                # forced replay reproduces the clock jump.
                jump = False
                if self.forced is not None:
                    i = len(self.choices)
                    if i < len(self.forced) and self.forced[i] == -2:
                        jump = True
                else:
                    p = self.params.get('timer_preempt_p', 0.0)
                    if p and self.rng.random() < p:
                        jump = True
                if jump:
                    timed = [t.deadline for t in self.tasks
                             if not t.done and t.deadline is not None
                             and t not in runnable]
                    if self.forced is not None or timed:
                        self.choices.append(-2)
                    if timed:
                        self.timer_preempts += 1
                        self.now = max(self.now, min(timed))
                        continue
                    if self.forced is not None:
                        continue
                nxt = self._policy_pick(runnable)
                self.choices.append(nxt.tid)
                return nxt
            timed = [t.deadline for t in self.tasks
                     if not t.done and t.deadline is not None]
            if not timed:
                return None
            self.now = max(self.now, min(timed))
            self.timer_fires += 1
            if self.now > self.max_time:
                self.failure = 'time-cap'
                return None

    def _finish(self):
        if not self.finished:
            self.finished = True
            self.main_done.release()

    def _park(self, me):
        me.go.acquire()
        if self.aborting:
            raise SimAbort()

    def _switch(self, me, finished=False):
        if self.aborting:
            raise SimAbort()
        self.steps += 1
        if self.steps > self.max_steps:
            self.failure = 'step-cap'
            self._finish()
            if not finished:
                self._park(me)
            return
        nxt = self._pick()
        if nxt is None:
            if self.failure is None:
                alive = [t.name + ':' + t.label for t in self.tasks
                         if not t.done]
                self.failure = 'deadlock:' + ','.join(alive)
            self._finish()
            if not finished:
                self._park(me)
            return
        if nxt is not self.cur:
            self.switches += 1
        self.cur = nxt
        # waking up: decide whether it was a timeout
        if nxt.wait_pred is not None:
            if nxt.wait_pred():
                nxt.timed_out = False
            else:
                nxt.timed_out = True
            nxt.wait_pred = None
            nxt.deadline = None
        if nxt is me and not finished:
            return
        nxt.go.release()
        if not finished:
            self._park(me)

    # ----------------------------------------------------- public primitives
    def yield_(self, label=''):
        """A scheduling point: any runnable task may run next."""
        me = self.cur
        me.label = label
        self.note(label)
        self._switch(me)

    def block(self, pred, timeout=None, label=''):
        """Block the current task until pred() holds or the virtual timeout
        expires.  Returns True if pred held at wake-up, False on timeout."""
        me = self.cur
        me.label = label
        self.note('b:' + label)
        if timeout is not None and timeout < 0:
            timeout = 0
        me.wait_pred = pred
        me.timed_out = False
        me.deadline = None if timeout is None else self.now + timeout
        self._switch(me)
        to = me.timed_out
        me.timed_out = False
        return not to

    def sleep(self, secs):
        self.block(_never, secs, 'sleep')

    def alive_tasks(self):
        return [t for t in self.tasks if not t.done]

    # ----------------------------------------------------------------- run
    def run(self, main_fn):
        """Run main_fn as task 0 until it returns (or deadlock / caps), then
        unwind every task that is still alive.  Returns the main Task."""
        global CUR  # pylint: disable=global-statement
        CUR = self
        t = self.spawn('main', main_fn)
        self.cur = t
        t.go.release()
        ok = self.main_done.acquire(timeout=self.wall_timeout)
        if not ok:
            self.aborting = True
            raise HarnessTimeout(
                'wall-clock watchdog (%ss) fired; current task %s at %s' %
                (self.wall_timeout, self.cur.name if self.cur else None,
                 self.cur.label if self.cur else None))
        self._unwind()
        return t

    def _unwind(self):
        self.aborting = True
        for t in self.tasks:
            if t.done:
                continue
            t.go.release()
            if not self.abort_ack.acquire(timeout=self.wall_timeout):
                raise HarnessTimeout('task %s did not unwind' % t.name)
        for t in self.tasks:
            t.thread.join(self.wall_timeout)


def _never():
    return False
