"""Generator and executor of WBEM operation programs (JSON-able op specs)
over a modelgen model; shared by the wire-world checks."""
import pywbem
import pywbem_mock
from pywbem import (CIMInstanceName, CIMClassName, CIMInstance, CIMParameter,
                    CIMError, Uint32)

from . import modelgen as mg

ITER_OPS = ['IterEnumerateInstances', 'IterEnumerateInstancePaths',
            'IterAssociatorInstances', 'IterAssociatorInstancePaths',
            'IterReferenceInstances', 'IterReferenceInstancePaths',
            'IterQueryInstances']
OPEN_OPS = ['OpenEnumerateInstances', 'OpenEnumerateInstancePaths',
            'OpenAssociatorInstances', 'OpenAssociatorInstancePaths',
            'OpenReferenceInstances', 'OpenReferenceInstancePaths',
            'OpenQueryInstances']
PULL_FOR = {'OpenEnumerateInstances': 'PullInstancesWithPath',
            'OpenAssociatorInstances': 'PullInstancesWithPath',
            'OpenReferenceInstances': 'PullInstancesWithPath',
            'OpenEnumerateInstancePaths': 'PullInstancePaths',
            'OpenAssociatorInstancePaths': 'PullInstancePaths',
            'OpenReferenceInstancePaths': 'PullInstancePaths',
            'OpenQueryInstances': 'PullInstances'}


# ------------------------------------------------------------ echo provider
class EchoMethodProvider(pywbem_mock.MethodProvider):
    """Method provider for every class of the model that declares a method:
    the return value is derived from the declared return type, every
    parameter that is declared [Out] is echoed back."""
    provider_classnames = []

    def __init__(self, cimrepository, classnames):
        super().__init__(cimrepository)
        self.provider_classnames = classnames

    def InvokeMethod(self, methodname, localobject, params):
        ns = localobject.namespace
        klass = self.cimrepository.get_class_store(ns).get(
            localobject.classname)
        meth = klass.methods[methodname]
        rv = {'uint32': Uint32(len(params)), 'string': 'rv:' + methodname,
              'boolean': True, 'sint64': pywbem.Sint64(-len(params)),
              'datetime': pywbem.CIMDateTime('20260925120000.000000+000')
              }.get(meth.return_type, Uint32(0))
        outs = []
        for pn in params:
            decl = meth.parameters[pn]
            q = decl.qualifiers.get('Out')
            if q is not None and q.value:
                p = params[pn]
                outs.append(CIMParameter(decl.name, decl.type, value=p.value,
                                         is_array=decl.is_array))
        return (rv, outs)


def register_echo(conn, model):
    names = [c['name'] for c in model['classes'] if c.get('methods')]
    if names:
        conn.register_provider(
            EchoMethodProvider(conn.cimrepository, names),
            namespaces=list(model['namespaces']))


# --------------------------------------------------------------- arguments
def resolve(spec, results, host=None, cache=None):
    """op-arg spec -> python / pywbem object.  cache (a dict, per
    connection): argument objects are re-used for equal specs, i.e. the
    caller passes the same Python object to several operations."""
    if cache is not None and isinstance(spec, dict) and \
            ('$inst' in spec or '$path' in spec or '$cname' in spec or
             '$class' in spec):
        import json as _json
        key = _json.dumps(spec, sort_keys=True)
        if key not in cache:
            cache[key] = resolve(spec, results, host)
        return cache[key]
    if isinstance(spec, dict):
        if '$path' in spec:
            p = mg.path_to_cim(spec['$path'])
            if spec.get('host'):
                p.host = spec['host']
            return p
        if '$cname' in spec:
            return CIMClassName(spec['$cname'], namespace=spec.get('ns'),
                                host=spec.get('host'))
        if '$inst' in spec:
            inst = mg.inst_to_cim(spec['$inst'], spec.get('cdesc'))
            if spec.get('path') is not None:
                inst.path = mg.path_to_cim(spec['path'])
            return inst
        if '$class' in spec:
            return mg.class_to_cim(spec['$class'])
        if '$qual' in spec:
            q = mg.qualifier_decls()[spec['$qual']]
            if 'name' in spec:
                q.name = spec['name']
            return q
        if '$ctx' in spec:
            i = spec['$ctx']
            if 0 <= i < len(results) and results[i][0] == 'ok' and \
                    hasattr(results[i][1], 'context') and (
                        results[i][1].context is not None or
                        spec.get('raw')):
                return results[i][1].context
            return tuple(spec.get('fake', ['no-such-context', 'root/cimv2']))
        if '$val' in spec:
            return mg.value_to_cim(spec['$val'])
        if '$params' in spec:
            return [(n, mg.value_to_cim(v)) for n, v in spec['$params']]
        if '$cimparams' in spec:
            return [CIMParameter(n, v['t'], value=mg.value_to_cim(v),
                                 is_array='a' in v)
                    for n, v in spec['$cimparams']]
        raise ValueError('bad arg spec %r' % (spec,))
    return spec


def call(conn, op, results, cache=None):
    """Execute one op spec on conn.  Returns ('ok', value) | ('exc', e)."""
    name = op['op']
    if name == '$set_default_namespace':
        try:
            conn.default_namespace = op['ns']
            return ('ok', None)
        except Exception as e:  # pylint: disable=broad-except
            return ('exc', e)
    kw = {k: resolve(v, results, cache=cache)
          for k, v in op.get('a', {}).items()}
    pos = [resolve(v, results, cache=cache) for v in op.get('p', [])]
    try:
        fn = getattr(conn, name)
        rv = fn(*pos, **kw)
        if name.startswith('Iter'):
            if name == 'IterQueryInstances':
                rv = ('iterquery', rv.query_result_class, list(rv.generator))
            else:
                rv = list(rv)
        return ('ok', rv)
    except Exception as e:  # pylint: disable=broad-except
        return ('exc', e)


# --------------------------------------------------------------- generator
def _case(r, s):
    k = r.random()
    if k < 0.75:
        return s
    if k < 0.85:
        return s.lower()
    if k < 0.95:
        return s.upper()
    return s.swapcase()


class OpGen:
    def __init__(self, r, model, default_ns, valid_only=False):
        self.valid_only = valid_only
        self.r = r
        self.m = model
        self.cmap = {c['name']: c for c in model['classes']}
        self.default_ns = default_ns
        self.nfresh = 0

    def ns(self, allow_bad=True):
        r = self.r
        allow_bad = allow_bad and not self.valid_only
        k = r.random()
        if k < 0.4:
            return None
        if k < 0.9 or not allow_bad:
            return _case(r, r.choice(self.m['namespaces']))
        return r.choice(['no/such', 'root', '/root/cimv2', 'root/cimv2/'])

    def eff_ns(self, ns):
        ns = ns or self.default_ns
        for n in self.m['namespaces']:
            if n.lower() == ns.strip('/').lower():
                return n
        return None

    def cls(self, assoc=None, allow_bad=True):
        r = self.r
        cands = [c for c in self.m['classes']
                 if assoc is None or c['assoc'] == assoc]
        allow_bad = allow_bad and not self.valid_only
        if (allow_bad and r.random() < 0.08) or not cands:
            return r.choice(['NoSuchClass', 'C0x', ''])
        return _case(r, r.choice(cands)['name'])

    def clsarg(self, name, ns=None):
        r = self.r
        if r.random() < 0.7:
            return name
        spec = {'$cname': name}
        if r.random() < 0.4:
            spec['ns'] = ns if ns is not None else self.ns(False)
        if r.random() < 0.15:
            spec['host'] = 'other.host:5989'
        return spec

    def inst(self, ns=None):
        """Pick an instance spec of the model in (effective) namespace."""
        r = self.r
        n = self.eff_ns(ns)
        lst = self.m['instances'].get(n, []) if n else []
        if not lst:
            return None, n
        return r.choice(lst), n

    def patharg(self, assoc=None, allow_bad=True):
        r = self.r
        allow_bad = allow_bad and not self.valid_only
        nsarg = self.ns(allow_bad)
        ispec, n = self.inst(nsarg)
        if ispec is None:
            ps = {'cls': 'C0', 'ns': nsarg,
                  'keys': {'K0': {'t': 'string', 'v': 'none'}}}
            return {'$path': ps}
        ps = mg.path_of(self.cmap, ispec, nsarg)
        k = r.random()
        if allow_bad and k < 0.1:
            # non-existing key value
            for kn, kv in ps['keys'].items():
                if kv['t'] == 'string':
                    kv = dict(kv, v='nope%d' % r.randrange(100))
                elif kv['t'] in mg.INT_TYPES:
                    lo, hi = mg.int_range(kv['t'])
                    kv = dict(kv, v=min(hi, max(lo, (kv['v'] or 0) + 1)))
                ps['keys'][kn] = kv
                break
        elif k < 0.2:
            ps['cls'] = _case(r, ps['cls'])
            ps['keys'] = {_case(r, a): b for a, b in ps['keys'].items()}
        spec = {'$path': ps}
        if r.random() < 0.1:
            spec['host'] = 'other.host:5989'
        return spec

    def proplist(self, cname=None):
        r = self.r
        k = r.random()
        if k < 0.5:
            return None
        if k < 0.6:
            return []
        names = []
        c = self.cmap.get(cname) if cname else None
        pool = [p['name'] for p in
                (mg.all_props(self.cmap, c['name']) if c else
                 [p for cc in self.m['classes'] for p in cc['props']])]
        for _ in range(r.randint(1, 3)):
            if pool and r.random() < 0.85:
                names.append(_case(r, r.choice(pool)))
            else:
                names.append('NoSuchProp')
        if r.random() < 0.1:
            return names[0]
        return names

    def flag(self):
        return self.r.choice([None, None, True, False])

    def flags(self, a, names):
        for n in names:
            v = self.flag()
            if v is not None:
                a[n] = v

    def pullargs(self, a, is_open):
        r = self.r
        k = r.random()
        if is_open:
            if k < 0.4:
                pass
            else:
                a['MaxObjectCount'] = r.choice([0, 1, 1, 2, 3, 100])
        if r.random() < 0.15:
            a['OperationTimeout'] = r.choice([0, 5, 40])
        if r.random() < 0.1:
            a['ContinueOnError'] = r.choice([False, False, True]) \
                if not self.valid_only else False
        if r.random() < 0.08 and not self.valid_only:
            a['FilterQueryLanguage'] = r.choice(['DMTF:FQL', 'WQL'])
            a['FilterQuery'] = r.choice(['K0 = 1', 'x', ''])

    def new_inst(self, ns):
        r = self.r
        plain = [c for c in self.m['classes'] if not c['assoc']]
        c = r.choice(plain)
        props = {}
        self.nfresh += 1
        for p in mg.all_props(self.cmap, c['name']):
            if p['key']:
                v = mg.gen_value(r, p['type'], False, 0.0)
                if p['type'] == 'string':
                    v['v'] = 'new%d-%d' % (self.nfresh, r.randrange(10 ** 6))
                props[p['name']] = v
            elif r.random() < 0.7:
                props[p['name']] = mg.gen_value(r, p['type'],
                                                p.get('array', False), 0.15)
        k = r.random() if not self.valid_only else 1.0
        if k < 0.06:
            props['Undeclared'] = {'t': 'string', 'v': 'x'}
        elif k < 0.12 and [n for n in props if not n.startswith('K')]:
            n = r.choice(sorted(n for n in props if not n.startswith('K')))
            props[n] = {'t': 'string' if props[n]['t'] != 'string'
                        else 'uint8', 'v': None}
        return {'cls': _case(r, c['name']), 'props': props}, c

    def gen(self, idx, history):
        """One op spec.  history = list of earlier op specs (for contexts)."""
        r = self.r
        kind = r.choice(
            ['EnumerateInstances'] * 4 + ['EnumerateInstanceNames'] * 3 +
            ['GetInstance'] * 4 + ['ModifyInstance'] * 3 +
            ['CreateInstance'] * 3 + ['DeleteInstance'] * 2 +
            ['Associators'] * 2 + ['AssociatorNames'] * 2 +
            ['References'] * 2 + ['ReferenceNames'] * 2 +
            ['InvokeMethod'] * 3 + ['ExecQuery'] + ['Iter'] * 4 +
            ['Open'] * 5 + ['Pull'] * 5 + ['CloseEnumeration'] * 2 +
            ['EnumerateClasses'] * 2 + ['EnumerateClassNames'] * 2 +
            ['GetClass'] * 3 + ['ModifyClass'] + ['CreateClass'] * 2 +
            ['DeleteClass'] + ['EnumerateQualifiers'] + ['GetQualifier'] * 2 +
            ['SetQualifier'] + ['DeleteQualifier'])
        a = {}
        if kind in ('EnumerateInstances', 'EnumerateInstanceNames'):
            cn = self.cls()
            ns = self.ns()
            a['ClassName'] = self.clsarg(cn)
            if ns is not None:
                a['namespace'] = ns
            if kind == 'EnumerateInstances':
                self.flags(a, ['LocalOnly', 'DeepInheritance',
                               'IncludeQualifiers', 'IncludeClassOrigin'])
                pl = self.proplist()
                if pl is not None:
                    a['PropertyList'] = pl
            return {'op': kind, 'a': a}
        if kind == 'GetInstance':
            a['InstanceName'] = self.patharg()
            self.flags(a, ['LocalOnly', 'IncludeQualifiers',
                           'IncludeClassOrigin'])
            pl = self.proplist()
            if pl is not None:
                a['PropertyList'] = pl
            return {'op': kind, 'a': a}
        if kind == 'DeleteInstance':
            a['InstanceName'] = self.patharg()
            return {'op': kind, 'a': a}
        if kind == 'CreateInstance':
            ns = self.ns()
            ispec, c = self.new_inst(ns)
            spec = {'$inst': ispec, 'cdesc': c}
            if r.random() < 0.3:
                try:
                    spec['path'] = mg.path_of(self.cmap, dict(
                        ispec, cls=c['name']), ns)
                except KeyError:
                    pass
            a['NewInstance'] = spec
            if ns is not None:
                a['namespace'] = ns
            return {'op': kind, 'a': a}
        if kind == 'ModifyInstance':
            nsarg = self.ns(False)
            ispec, n = self.inst(nsarg)
            if ispec is None:
                return self.gen(idx, history)
            c = self.cmap[ispec['cls']]
            props = dict(ispec['props'])
            for p in mg.all_props(self.cmap, c['name']):
                if not p['key'] and p['type'] != 'reference' and \
                        r.random() < 0.5:
                    props[p['name']] = mg.gen_value(
                        r, p['type'], p.get('array', False), 0.2)
            if r.random() < 0.05 and not self.valid_only:
                kp = mg.key_props(self.cmap, c['name'])[0]
                if kp['type'] == 'string':
                    props[kp['name']] = {'t': 'string', 'v': 'changedkey'}
            a['ModifiedInstance'] = {
                '$inst': {'cls': ispec['cls'], 'props': props}, 'cdesc': c,
                'path': mg.path_of(self.cmap, ispec, nsarg)}
            pl = self.proplist(c['name'])
            if pl is not None:
                a['PropertyList'] = pl
            if r.random() < 0.2:
                a['IncludeQualifiers'] = r.choice([True, False])
            return {'op': kind, 'a': a}
        if kind in ('Associators', 'AssociatorNames', 'References',
                    'ReferenceNames'):
            if r.random() < 0.75:
                a['ObjectName'] = self.patharg()
            else:
                a['ObjectName'] = self.clsarg(self.cls(), None)
            if r.random() < 0.3:
                a['ResultClass'] = self.clsarg(self.cls())
            if r.random() < 0.25:
                a['Role'] = _case(r, r.choice(['Ante', 'Dep', 'Third', 'Nope']))
            if kind.startswith('Assoc'):
                if r.random() < 0.3:
                    a['AssocClass'] = self.clsarg(self.cls(assoc=True))
                if r.random() < 0.25:
                    a['ResultRole'] = _case(r, r.choice(['Ante', 'Dep',
                                                         'Third', 'Nope']))
            if not kind.endswith('Names'):
                self.flags(a, ['IncludeQualifiers', 'IncludeClassOrigin'])
                pl = self.proplist()
                if pl is not None:
                    a['PropertyList'] = pl
            return {'op': kind, 'a': a}
        if kind == 'InvokeMethod':
            withm = [c for c in self.m['classes'] if c.get('methods')]
            if not withm:
                return {'op': 'InvokeMethod',
                        'p': ['NoMethod', self.clsarg(self.cls())]}
            c = r.choice(withm)
            m = c['methods'][0]
            params = []
            for q in m['params']:
                if q['type'] == 'reference':
                    cands = [mg.path_of(self.cmap, i, n2)
                             for n2 in self.m['namespaces']
                             for i in self.m['instances'].get(n2, [])
                             if mg.is_subclass(self.cmap, i['cls'], q['ref'])]
                    if not cands or r.random() < 0.15:
                        continue
                    if q.get('array'):
                        v = {'t': 'reference', 'a': [
                            None if r.random() < 0.3 else r.choice(cands)
                            for _ in range(r.choice([0, 1, 2, 2, 3]))]}
                    else:
                        v = {'t': 'reference', 'v': r.choice(cands)}
                    params.append([_case(r, q['name']), v])
                    continue
                if r.random() < 0.9:
                    v = mg.gen_value(r, q['type'], q.get('array', False),
                                     0.1)
                    if q['type'] == 'datetime' and r.random() < 0.5 and \
                            '*' not in repr(v):
                        # Python datetime / timedelta objects are accepted
                        # wherever a CIM datetime is
                        v['py'] = True
                    params.append([_case(r, q['name']), v])
            if r.random() < 0.08:
                params.append(['Extra', {'t': 'string', 'v': 'x'}])
            # target: instance of class (or subclass) or class itself
            tgt = None
            if r.random() < 0.6:
                nsarg = self.ns(False)
                n = self.eff_ns(nsarg)
                cands = [i for i in self.m['instances'].get(n, [])
                         if mg.is_subclass(self.cmap, i['cls'], c['name'])]
                if cands:
                    tgt = {'$path': mg.path_of(self.cmap, r.choice(cands),
                                               nsarg)}
            if tgt is None:
                tgt = self.clsarg(c['name'], self.ns(False))
            op = {'op': kind, 'p': [_case(r, m['name']), tgt]}
            # (NULL values and empty arrays carry no type when given as
            # (name, value) tuples or keywords; both paths must cope)
            k = r.random()
            if k < 0.34:
                op['a'] = {'Params': {'$cimparams': params}}
            elif k < 0.67:
                op['a'] = {'Params': {'$params': params}}
            else:
                op['a'] = {n: {'$val': v} for n, v in params}
            return op
        if kind == 'ExecQuery':
            a['QueryLanguage'] = r.choice(['WQL', 'DMTF:CQL', 'bogus'])
            a['Query'] = r.choice(['select * from C0', 'x', 'ä€'])
            ns = self.ns()
            if ns is not None:
                a['namespace'] = ns
            return {'op': kind, 'a': a}
        if kind in ('Iter', 'Open'):
            name = r.choice(ITER_OPS if kind == 'Iter' else OPEN_OPS)
            if 'Query' in name:
                # (the mock accepts DMTF:FQL only; with mg.enable_query() the
                # query is answered, otherwise it ends in NOT_SUPPORTED)
                a['FilterQueryLanguage'] = r.choice(['WQL', 'DMTF:CQL',
                                                     'DMTF:FQL', 'DMTF:FQL'])
                # (the mock names the result class only behind an upper
                # case FROM)
                a['FilterQuery'] = r.choice(
                    ['select * from %s', 'SELECT * FROM %s']) % r.choice(
                        ['C0', self.m['classes'][0]['name']])
                ns = self.ns()
                if ns is not None:
                    a['namespace'] = ns
                if r.random() < 0.3:
                    a['ReturnQueryResultClass'] = r.choice([True, False])
            elif 'Enumerate' in name:
                a['ClassName'] = self.clsarg(self.cls())
                ns = self.ns()
                if ns is not None:
                    a['namespace'] = ns
                if name.endswith('Instances'):
                    self.flags(a, ['DeepInheritance', 'IncludeClassOrigin'])
                    if kind == 'Iter':
                        self.flags(a, ['LocalOnly', 'IncludeQualifiers'])
                    pl = self.proplist()
                    if pl is not None:
                        a['PropertyList'] = pl
            else:
                a['InstanceName'] = self.patharg()
                if r.random() < 0.3:
                    a['ResultClass'] = self.clsarg(self.cls())
                if r.random() < 0.25:
                    a['Role'] = r.choice(['Ante', 'Dep', 'Third', 'Nope'])
                if 'Associator' in name:
                    if r.random() < 0.3:
                        a['AssocClass'] = self.clsarg(self.cls(assoc=True))
                    if r.random() < 0.25:
                        a['ResultRole'] = r.choice(['Ante', 'Dep', 'Nope'])
                if name.endswith('Instances'):
                    self.flags(a, ['IncludeClassOrigin'])
                    if kind == 'Iter':
                        self.flags(a, ['IncludeQualifiers'])
                    pl = self.proplist()
                    if pl is not None:
                        a['PropertyList'] = pl
            self.pullargs(a, kind == 'Open')
            if kind == 'Iter' and r.random() < 0.7:
                a['MaxObjectCount'] = r.choice(
                    [1, 2, 3, 100, 0] if not self.valid_only
                    else [1, 2, 3, 100])
            return {'op': name, 'a': a}
        if kind in ('Pull', 'CloseEnumeration'):
            opens = [i for i, h in enumerate(history)
                     if h['op'] in PULL_FOR]
            if opens and r.random() < 0.9:
                i = r.choice(opens)
                pname = PULL_FOR[history[i]['op']]
                if r.random() < 0.1:
                    pname = r.choice(['PullInstancesWithPath',
                                      'PullInstancePaths', 'PullInstances'])
            else:
                i = -1
                pname = r.choice(['PullInstancesWithPath',
                                  'PullInstancePaths', 'PullInstances'])
            ctx = {'$ctx': i}
            moc = r.choice([0, 1, 1, 2, 5, 100])
            if getattr(self, 'client_invalid', False) and r.random() < 0.2:
                # arguments the client itself rejects: the context of an
                # exhausted enumeration (None), a malformed context, an
                # invalid MaxObjectCount
                k2 = r.random()
                if k2 < 0.5:
                    ctx = {'$ctx': i, 'raw': True}
                elif k2 < 0.7:
                    ctx = {'$ctx': i, 'fake': ['only-one-item']}
                else:
                    moc = r.choice([-1, None, 'x'])
            if kind == 'CloseEnumeration':
                return {'op': kind, 'p': [ctx]}
            return {'op': pname, 'p': [ctx, moc]}
        if kind in ('EnumerateClasses', 'EnumerateClassNames'):
            ns = self.ns()
            if ns is not None:
                a['namespace'] = ns
            if r.random() < 0.5:
                a['ClassName'] = self.clsarg(self.cls())
            self.flags(a, ['DeepInheritance'])
            if kind == 'EnumerateClasses':
                self.flags(a, ['LocalOnly', 'IncludeQualifiers',
                               'IncludeClassOrigin'])
            return {'op': kind, 'a': a}
        if kind == 'GetClass':
            a['ClassName'] = self.clsarg(self.cls())
            ns = self.ns()
            if ns is not None:
                a['namespace'] = ns
            self.flags(a, ['LocalOnly', 'IncludeQualifiers',
                           'IncludeClassOrigin'])
            pl = self.proplist()
            if pl is not None:
                a['PropertyList'] = pl
            return {'op': kind, 'a': a}
        if kind in ('CreateClass', 'ModifyClass'):
            self.nfresh += 1
            base = r.choice(self.m['classes'])
            if kind == 'CreateClass':
                cd = {'name': 'New%d' % self.nfresh,
                      'super': r.choice([None, base['name'], 'NoSuchSuper'])
                      if r.random() < 0.9 else base['name'],
                      'props': [{'name': 'NP', 'type': r.choice(
                          mg.SIMPLE_TYPES), 'array': r.random() < 0.3,
                          'key': False}],
                      'methods': [], 'assoc': False, 'desc': 'n€w'}
                if cd['super'] is None:
                    cd['props'].insert(0, {'name': 'NK', 'type': 'string',
                                           'key': True, 'array': False})
                a['NewClass'] = {'$class': cd}
            else:
                cd = dict(base)
                cd['props'] = list(base['props']) + [
                    {'name': 'Added', 'type': 'string', 'array': False,
                     'key': False}]
                a['ModifiedClass'] = {'$class': cd}
            ns = self.ns()
            if ns is not None:
                a['namespace'] = ns
            return {'op': kind, 'a': a}
        if kind == 'DeleteClass':
            a['ClassName'] = self.clsarg(self.cls())
            ns = self.ns()
            if ns is not None:
                a['namespace'] = ns
            return {'op': kind, 'a': a}
        if kind == 'EnumerateQualifiers':
            ns = self.ns()
            if ns is not None:
                a['namespace'] = ns
            return {'op': kind, 'a': a}
        if kind in ('GetQualifier', 'DeleteQualifier'):
            a['QualifierName'] = _case(r, r.choice(
                [q[0] for q in mg.QUALS] + ['NoSuchQual']))
            if kind == 'DeleteQualifier' and r.random() < 0.7:
                a['QualifierName'] = 'MaxLen'
            ns = self.ns()
            if ns is not None:
                a['namespace'] = ns
            return {'op': kind, 'a': a}
        if kind == 'SetQualifier':
            spec = {'$qual': r.randrange(len(mg.QUALS))}
            if r.random() < 0.5:
                spec['name'] = 'NewQual%d' % r.randrange(3)
            a['QualifierDeclaration'] = spec
            ns = self.ns()
            if ns is not None:
                a['namespace'] = ns
            return {'op': kind, 'a': a}
        raise AssertionError(kind)


def gen_program(r, model, default_ns, n, valid_only=False,
                switch_default_ns=False, with_export=False,
                client_invalid=False):
    """with_export: the program may contain ExportIndication (the peer then
    also plays the role of a listener); only for worlds without a direct
    replica, because FakedWBEMConnection has no export path."""
    g = OpGen(r, model, default_ns, valid_only)
    g.client_invalid = client_invalid
    ops = []
    for i in range(n):
        if with_export and r.random() < 0.06:
            ispec, c = g.new_inst(None)
            spec = {'$inst': ispec, 'cdesc': c}
            if r.random() < 0.3:
                # an indication instance that carries a path
                try:
                    spec['path'] = mg.path_of(g.cmap, dict(
                        ispec, cls=c['name']), r.choice(
                            [None, model['namespaces'][0]]))
                except KeyError:
                    pass
            ops.append({'op': 'ExportIndication',
                        'a': {'NewIndication': spec}})
        elif switch_default_ns and r.random() < 0.08:
            ns = r.choice(model['namespaces'] + ['root/cimv2', None])
            ops.append({'op': '$set_default_namespace', 'ns': ns})
            g.default_ns = ns or 'root/cimv2'
        else:
            ops.append(g.gen(i, ops))
    return ops
