"""Drop-in replacements for threading / queue / time primitives that turn
every synchronisation operation into a scheduling point of simkit.sched."""
import types
import queue as _rq

from . import sched as _s


def S():
    return _s.CUR


class SimEvent:
    def __init__(self):
        self._f = False

    def set(self):
        S().yield_('ev.set')
        self._f = True

    def clear(self):
        S().yield_('ev.clear')
        self._f = False

    def is_set(self):
        S().yield_('ev.is_set')
        return self._f

    isSet = is_set

    def wait(self, timeout=None):
        return S().block(lambda: self._f, timeout, 'ev.wait')


class SimThread:
    """threading.Thread look-alike (subclassable; run()/start()/join())."""

    def __init__(self, group=None, target=None, name=None, args=(),
                 kwargs=None, *, daemon=None):
        sch = S()
        n = getattr(sch, '_thr_n', 0) + 1
        sch._thr_n = n
        self._target, self._args, self._kwargs = target, args, kwargs or {}
        self.name = str(name) if name else 'T%d' % n
        self.daemon = bool(daemon)
        self._task = None
        self._owned = getattr(sch, 'spawn_owned', True)

    def run(self):
        if self._target:
            self._target(*self._args, **self._kwargs)

    def start(self):
        if self._task is not None:
            raise RuntimeError('threads can only be started once')
        sch = S()
        self._task = sch.spawn(self.name, self.run, listener_owned=self._owned)
        sch.yield_('thr.start:' + self.name)

    def join(self, timeout=None):
        if self._task is None:
            raise RuntimeError('cannot join thread before it is started')
        S().block(lambda: self._task.done, timeout, 'thr.join:' + self.name)

    def is_alive(self):
        return self._task is not None and not self._task.done

    def getName(self):
        return self.name

    def setName(self, n):
        self.name = n

    def isDaemon(self):
        return self.daemon

    def setDaemon(self, d):
        self.daemon = d

    @property
    def ident(self):
        return None if self._task is None else 1000 + self._task.tid


class SimLock:
    """threading.Lock look-alike (not reentrant)."""
    _reentrant = False

    def __init__(self):
        self._owner = None
        self._n = 0

    def acquire(self, blocking=True, timeout=-1):
        sch = S()
        me = sch.cur
        if self._reentrant and self._owner is me:
            self._n += 1
            return True
        if not blocking:
            sch.yield_('lock.try')
            if self._owner is None:
                self._owner, self._n = me, 1
                return True
            return False
        ok = sch.block(lambda: self._owner is None,
                       None if timeout is None or timeout < 0 else timeout,
                       'lock.acq')
        if not ok:
            return False
        self._owner, self._n = me, 1
        return True

    def release(self):
        if self._owner is None:
            raise RuntimeError('release unlocked lock')
        self._n -= 1
        if self._n <= 0:
            self._owner = None
            self._n = 0

    def __enter__(self):
        self.acquire()
        return self

    def __exit__(self, *a):
        self.release()

    def locked(self):
        return self._owner is not None


class SimRLock(SimLock):
    _reentrant = True


class SimQueue:
    """queue.Queue look-alike.  Deliberately no __len__/__bool__ (the real
    class has neither, and pywbem tests the object for truth)."""

    def __init__(self, maxsize=0):
        self.maxsize = maxsize
        self.q = []
        self.unfinished_tasks = 0
        sch = S()
        self._sch = sch
        reg = getattr(sch, 'queues', None)
        if reg is not None:
            reg.append(self)

    def qsize(self):
        S().yield_('q.qsize')
        return len(self.q)

    def empty(self):
        sch = S()
        sch.yield_('q.empty')
        fn = getattr(sch, 'on_qempty', None)
        if fn is not None:
            fn(not self.q)
        return not self.q

    def full(self):
        S().yield_('q.full')
        return 0 < self.maxsize <= len(self.q)

    def put(self, item, block=True, timeout=None):
        sch = S()
        sch.yield_('q.put')
        if self.maxsize > 0 and len(self.q) >= self.maxsize:
            if not block:
                raise _rq.Full
            if timeout is not None and timeout < 0:
                raise ValueError("'timeout' must be a non-negative number")
            if not sch.block(lambda: len(self.q) < self.maxsize, timeout,
                             'q.put.wait'):
                raise _rq.Full
        self.q.append(item)
        self.unfinished_tasks += 1

    def put_nowait(self, item):
        return self.put(item, block=False)

    def get(self, block=True, timeout=None):
        sch = S()
        sch.yield_('q.get')
        if not self.q:
            if not block:
                raise _rq.Empty
            if timeout is not None and timeout < 0:
                raise ValueError("'timeout' must be a non-negative number")
            if not sch.block(lambda: bool(self.q), timeout, 'q.get.wait'):
                raise _rq.Empty
        return self.q.pop(0)

    def get_nowait(self):
        return self.get(block=False)

    def task_done(self):
        S().yield_('q.task_done')
        if self.unfinished_tasks <= 0:
            raise ValueError('task_done() called too many times')
        self.unfinished_tasks -= 1

    def join(self):
        S().block(lambda: self.unfinished_tasks == 0, None, 'q.join')


EPOCH = 1700000000.0


def v_sleep(secs):
    S().sleep(secs)


def v_time():
    return EPOCH + S().now


def v_monotonic():
    return S().now


def shim_module(real, **over):
    """A copy of module `real` with some names replaced."""
    m = types.ModuleType(real.__name__)
    m.__dict__.update({k: v for k, v in real.__dict__.items()
                       if k not in ('__dict__',)})
    m.__dict__.update(over)
    return m
