"""In-memory network for the listener world: port table with EADDRINUSE
semantics, listening sockets with an accept queue, duplex byte pipes whose
reads and writes are scheduling points, and a selector."""
import io
import re as _re
import errno
import socket as _rsocket

from . import sched as _s


def S():
    return _s.CUR


class FakeNet:
    def __init__(self):
        self.bound = {}        # port -> FakeListenSocket
        self.conn_n = 0
        self.conns = []        # every connection ever made

    def connect(self, port, peer_ip='10.0.0.1'):
        """Client side connect.  Returns SimConn or raises
        ConnectionRefusedError."""
        ls = self.bound.get(port)
        if ls is None or ls.closed or not ls.listening:
            raise ConnectionRefusedError(errno.ECONNREFUSED,
                                         'Connection refused')
        self.conn_n += 1
        c = SimConn(self.conn_n, (peer_ip, 40000 + self.conn_n))
        ls.pending.append(c)
        self.conns.append(c)
        return c

    def quiet(self):
        """No connection is waiting to be accepted or still being handled
        by the listening side."""
        return all(c.server_closed or c.reset for c in self.conns)


NET = None


def new_net():
    global NET  # pylint: disable=global-statement
    NET = FakeNet()
    return NET


class SimConn:
    """One TCP connection.  c2s / s2c are the two byte directions."""

    def __init__(self, cid, peer):
        self.cid = cid
        self.peer = peer
        self.c2s = bytearray()
        self.c2s_eof = False      # client will send no more
        self.s2c = bytearray()
        self.s2c_eof = False      # server will send no more
        self.client_gone = False  # client vanished (reads on server -> EOF,
        #                           writes on server -> reset)
        self.server_closed = False
        self.reset = False        # connection reset by the listening side
        self.accepted = False
        self.server = _ServerEnd(self)

    # ---- client API (called from sender tasks)
    def send(self, data, label='c.send'):
        S().yield_(label)
        if self.reset or self.server_closed:
            raise ConnectionResetError(errno.ECONNRESET, 'reset by peer')
        self.c2s += data

    def close_write(self):
        S().yield_('c.shutwr')
        self.c2s_eof = True

    def response_complete(self):
        """The bytes received so far are a complete HTTP response according
        to its Content-Length header."""
        buf = bytes(self.s2c)
        i = buf.find(b'\r\n\r\n')
        if i < 0:
            return False
        m = _re.search(rb'(?i)\r\ncontent-length:[ \t]*(\d+)[ \t]*\r\n',
                       buf[:i + 2])
        return bool(m) and len(buf) >= i + 4 + int(m.group(1))

    def recv_all(self, timeout=None, eager=False):
        """Read until the server closes - or, for an eager reader, until the
        response is complete according to its Content-Length, as HTTP clients
        do.  Returns (bytes, how) where how is 'eof' | 'reset' | 'timeout'."""
        ok = S().block(lambda: self.s2c_eof or self.reset or
                       self.server_closed or
                       (eager and self.response_complete()), timeout,
                       'c.recv')
        if not ok:
            return bytes(self.s2c), 'timeout'
        if self.reset:
            return bytes(self.s2c), 'reset'
        return bytes(self.s2c), 'eof'

    def vanish(self):
        """The client dies: no more data, nobody reads the response."""
        S().yield_('c.vanish')
        self.c2s_eof = True
        self.client_gone = True


class _RawIn(io.RawIOBase):
    def __init__(self, conn):
        super().__init__()
        self.conn = conn

    def readable(self):
        return True

    def readinto(self, b):
        c = self.conn
        S().block(lambda: c.c2s or c.c2s_eof, c.server.timeout, 's.read')
        if not c.c2s:
            if c.c2s_eof:
                return 0
            raise _rsocket.timeout('timed out')
        n = min(len(b), len(c.c2s))
        b[:n] = c.c2s[:n]
        del c.c2s[:n]
        return n


class _RawOut(io.RawIOBase):
    def __init__(self, conn):
        super().__init__()
        self.conn = conn

    def writable(self):
        return True

    def write(self, b):
        self.conn.server.sendall(bytes(b))
        return len(b)


class _ServerEnd:
    """The socket object handed to socketserver by accept()."""

    def __init__(self, conn):
        self.conn = conn
        self.timeout = None
        self.closed = False

    def makefile(self, mode='r', buffering=-1, **_kw):
        if 'r' in mode:
            raw = _RawIn(self.conn)
            if buffering == 0:
                return raw
            return io.BufferedReader(
                raw, buffering if buffering and buffering > 0
                else io.DEFAULT_BUFFER_SIZE)
        raw = _RawOut(self.conn)
        if buffering == 0:
            return raw
        return io.BufferedWriter(raw)

    def sendall(self, data):
        S().yield_('s.send')
        if self.closed:
            raise OSError(errno.EBADF, 'Bad file descriptor')
        if self.conn.client_gone:
            raise BrokenPipeError(errno.EPIPE, 'Broken pipe')
        self.conn.s2c += bytes(data)

    def send(self, data):
        self.sendall(data)
        return len(data)

    def settimeout(self, t):
        self.timeout = t

    def gettimeout(self):
        return self.timeout

    def setsockopt(self, *a):
        pass

    def getsockopt(self, *a):
        return 0

    def getpeername(self):
        return self.conn.peer

    def getsockname(self):
        return ('10.0.0.2', 5988)

    def fileno(self):
        return 1000 + self.conn.cid

    def shutdown(self, how):
        if how in (_rsocket.SHUT_WR, _rsocket.SHUT_RDWR):
            self.conn.s2c_eof = True

    def close(self):
        self.closed = True
        self.conn.s2c_eof = True
        self.conn.server_closed = True


class FakeListenSocket:
    def __init__(self, family=None, type=None, *a):  # noqa: A002
        self.family = family
        self.type = type
        self.addr = None
        self.pending = []
        self.closed = False
        self.listening = False

    def setsockopt(self, *a):
        pass

    def getsockopt(self, *a):
        return 0

    def settimeout(self, t):
        pass

    def bind(self, addr):
        port = addr[1]
        cur = NET.bound.get(port)
        if cur is not None and not cur.closed:
            raise OSError(errno.EADDRINUSE, 'Address already in use')
        NET.bound[port] = self
        self.addr = (addr[0], port)

    def getsockname(self):
        return self.addr

    def listen(self, n=0):
        self.listening = True

    def fileno(self):
        return 99

    def accept(self):
        if self.closed:
            raise OSError(errno.EBADF, 'Bad file descriptor')
        if not self.pending:
            raise BlockingIOError(errno.EAGAIN, 'would block')
        c = self.pending.pop(0)
        c.accepted = True
        return c.server, c.peer

    def close(self):
        if self.addr and NET.bound.get(self.addr[1]) is self:
            del NET.bound[self.addr[1]]
        self.closed = True
        for c in self.pending:
            c.reset = True
        self.pending = []

    def shutdown(self, how):
        pass

    def __del__(self):
        # like a real socket object: the descriptor is released when the
        # last reference goes away
        try:
            if not self.closed and NET is not None:
                self.close()
        except Exception:  # pylint: disable=broad-except
            pass


class SimSelector:
    def __init__(self):
        self.objs = []

    def __enter__(self):
        return self

    def __exit__(self, *a):
        pass

    def register(self, obj, ev, data=None):
        self.objs.append(obj)

    def unregister(self, obj):
        self.objs.remove(obj)

    def close(self):
        pass

    def _ready(self):
        for o in self.objs:
            sock = getattr(o, 'socket', o)
            if getattr(sock, 'pending', None):
                return True
        return False

    def select(self, timeout=None):
        ok = S().block(self._ready, timeout, 'select')
        return [(None, 1)] if ok and self._ready() else []


def getaddrinfo(host, port, family=0, type=0, proto=0, flags=0):  # noqa: A002
    if family == _rsocket.AF_INET6:
        raise _rsocket.gaierror(-9, 'Address family for hostname not supported')
    return [(_rsocket.AF_INET, _rsocket.SOCK_STREAM, 6, '',
             (host or '0.0.0.0', int(port)))]
