"""The `store` world: model-based history machine over FakedWBEMConnection.

A small executable reference model (a keyed map of instances, incl.
association instances with their reference ends) is driven in lock-step with
the real mock WBEM server through its public operations; client-side aliasing
faults (in-place mutation of every object passed in or handed out) are
injected after every call.  Used by C10 (instance store) and C13 (association
traversal invariants)."""
import copy

import pywbem
from pywbem import (CIMError, CIMInstance, CIMInstanceName, CIMClassName,
                    CIMDateTime, CIMClass)

from . import modelgen as mg, opgen

ST = {'ALREADY_EXISTS': 11, 'NOT_FOUND': 6, 'INVALID_CLASS': 5,
      'INVALID_NAMESPACE': 3, 'INVALID_PARAMETER': 4}


# ---------------------------------------------------------------- canonical
def canon_scalar(v):
    if v is None:
        return None
    if isinstance(v, bool):
        return ('b', v)
    if isinstance(v, CIMInstanceName):
        return ('ref', path_key(v))
    if isinstance(v, CIMDateTime):
        return ('dt', str(v))
    if isinstance(v, float):
        return ('f', repr(float(v)))
    if isinstance(v, int):
        return ('i', int(v))
    if isinstance(v, str):
        return ('s', str(v))
    if isinstance(v, CIMInstance):
        return ('inst', v.classname.lower(), tuple(sorted(
            ((n.lower(), p.type, canon_value(p.value))
             for n, p in v.properties.items()), key=repr)))
    if isinstance(v, CIMClass):
        return ('cls', v.classname.lower(),
                tuple(sorted(n.lower() for n in v.properties)))
    return ('?', repr(v))


def canon_value(v):
    if isinstance(v, list):
        return ('arr', tuple(canon_scalar(x) for x in v))
    return canon_scalar(v)


def path_key(p, default_ns=None):
    ns = (p.namespace or default_ns or '').strip('/').lower()
    # (a sorted tuple, not a frozenset: iteration order and repr() of a
    # frozenset depend on PYTHONHASHSEED and on insertion history)
    return (ns, p.classname.lower(),
            tuple(sorted(((k.lower(), canon_scalar(v))
                          for k, v in p.keybindings.items()), key=repr)))


class RefModel:
    """dict key -> {'cls': name, 'ns': ns, 'props': {lname: (type, is_array,
    canon value)}, 'path': CIMInstanceName}"""

    def __init__(self, model):
        self.m = model
        self.cmap = {c['name'].lower(): c for c in model['classes']}
        self.namespaces = {n.lower() for n in model['namespaces']}
        self.inst = {}
        for ns in model['namespaces']:
            for ispec in model['instances'].get(ns, []):
                c = self.cmap[ispec['cls'].lower()]
                inst = mg.inst_to_cim(ispec, c)
                self.store(ns, inst)

    # -- schema helpers
    def cls(self, name):
        return self.cmap.get((name or '').lower())

    def all_props(self, cname):
        return {p['name'].lower(): p
                for p in mg.all_props({c['name']: c
                                       for c in self.m['classes']},
                                      self.cls(cname)['name'])}

    def is_sub(self, cname, sup):
        c = self.cls(cname)
        while c is not None:
            if c['name'].lower() == sup.lower():
                return True
            c = self.cls(c['super']) if c['super'] else None
        return False

    def key_names(self, cname):
        return [n for n, p in self.all_props(cname).items() if p.get('key')]

    # -- store
    def make_key(self, ns, inst):
        kn = self.key_names(inst.classname)
        kb = {}
        for n in kn:
            if n not in inst.properties:
                return None
            kb[n] = canon_scalar(inst.properties[n].value)
        return (ns.strip('/').lower(), inst.classname.lower(),
                tuple(sorted(kb.items(), key=repr)))

    def store(self, ns, inst):
        key = self.make_key(ns, inst)
        props = {}
        for n, p in inst.properties.items():
            props[n.lower()] = (p.type, p.is_array, canon_value(p.value))
        kb = {self.all_props(inst.classname)[n]['name']:
              copy.deepcopy(inst.properties[n].value)
              for n in self.key_names(inst.classname)}
        self.inst[key] = {
            'cls': self.cls(inst.classname)['name'], 'ns': ns.strip('/'),
            'props': props,
            'path': CIMInstanceName(self.cls(inst.classname)['name'],
                                    keybindings=kb, namespace=ns.strip('/'))}
        return key

    def subtree_keys(self, ns, cname):
        nsl = ns.strip('/').lower()
        return [k for k, v in self.inst.items()
                if k[0] == nsl and self.is_sub(v['cls'], cname)]


# ------------------------------------------------------------- aliasing
def scramble(obj, depth=0):
    """In-place, recursive mutation of an object the client passed in or got
    back: afterwards the client's object no longer resembles what it was."""
    if depth > 4 or obj is None:
        return
    if isinstance(obj, list):
        for x in obj:
            scramble(x, depth + 1)
        del obj[len(obj) // 2:]
        return
    if isinstance(obj, tuple):
        for x in obj:
            scramble(x, depth + 1)
        return
    if isinstance(obj, CIMInstanceName):
        for k in list(obj.keybindings.keys()):
            v = obj.keybindings[k]
            if isinstance(v, CIMInstanceName):
                scramble(v, depth + 1)
            elif isinstance(v, bool):
                obj.keybindings[k] = not v
            elif isinstance(v, str) and not isinstance(v, CIMDateTime):
                obj.keybindings[k] = v + '~mut'
            elif isinstance(v, int):
                try:
                    obj.keybindings[k] = type(v)(1 if int(v) != 1 else 0)
                except Exception:  # pylint: disable=broad-except
                    pass
        obj.classname = obj.classname + 'Mut'
        if obj.namespace:
            obj.namespace = obj.namespace + '/mut'
        return
    if isinstance(obj, CIMInstance):
        for n in list(obj.properties.keys()):
            p = obj.properties[n]
            v = p.value
            try:
                if isinstance(v, list):
                    for x in v:
                        if isinstance(x, CIMInstance):
                            scramble(x, depth + 1)
                    v.append(v[0] if v else None)
                    if v and isinstance(v[0], str) and \
                            not isinstance(v[0], CIMDateTime):
                        v[0] = 'mut'
                elif isinstance(v, (CIMInstanceName, CIMInstance)):
                    scramble(v, depth + 1)
                elif isinstance(v, CIMClass):
                    v.classname = v.classname + 'Mut'
                    for pn in list(v.properties.keys())[:1]:
                        del v.properties[pn]
                elif isinstance(v, bool):
                    p.value = not v
                elif isinstance(v, str) and not isinstance(v, CIMDateTime):
                    p.value = v + '~mut'
                elif isinstance(v, int):
                    p.value = type(v)(1 if int(v) != 1 else 0)
                elif v is None and p.type == 'string' and not p.is_array:
                    p.value = 'was-null'
            except Exception:  # pylint: disable=broad-except
                pass
        if obj.path is not None:
            scramble(obj.path, depth + 1)
        obj.classname = obj.classname + 'Mut'
        return
    if hasattr(obj, 'instances') or hasattr(obj, 'paths'):
        scramble(getattr(obj, 'instances', None) or
                 getattr(obj, 'paths', None), depth + 1)


# ---------------------------------------------------------------- executor
class Machine:
    def __init__(self, model, nconn=1, default_ns=None, aliasing=True):
        kw = {} if default_ns is None else {'default_namespace': default_ns}
        self.base = mg.fresh_conn(model, **kw)
        self.conns = [self.base] + [self.base.copy()
                                    for _ in range(nconn - 1)]
        self.default_ns = default_ns or 'root/cimv2'
        self.model = RefModel(model)
        self.aliasing = aliasing
        self.V = []
        self.probes = {}
        self.trace = []

    def viol(self, sig, msg):
        self.V.append({'sig': sig, 'msg': msg})

    def bump(self, k, n=1):
        self.probes[k] = self.probes.get(k, 0) + n

    # ---- generic call with aliasing fault
    def call(self, ci, opname, args):
        conn = self.conns[ci % len(self.conns)]
        # the server (and the aliasing fault) only ever see private copies
        # of what the plan / the oracle hold
        kw = {k: copy.deepcopy(opgen.resolve(v, [])) for k, v in args.items()}
        passed = list(kw.values())
        try:
            rv = getattr(conn, opname)(**kw)
            out = ('ok', rv)
        except CIMError as e:
            out = ('cim', e.status_code, e)
        except Exception as e:  # pylint: disable=broad-except
            out = ('exc', e)
        snap = copy.deepcopy(out[1]) if out[0] == 'ok' else None
        if self.aliasing:
            for o in passed:
                if isinstance(o, (CIMInstance, CIMInstanceName, list)):
                    scramble(o)
            if out[0] == 'ok':
                scramble(out[1])
                self.bump('aliasing_mutations')
        return out, snap, kw

    # ---- expectations from the model
    def eff_ns(self, ns):
        return (ns or self.default_ns).strip('/')

    def expect_target(self, ns, cname):
        """Status code the documentation fixes for a bad namespace/class."""
        if ns.lower() not in self.model.namespaces:
            return ST['INVALID_NAMESPACE']
        if self.model.cls(cname) is None:
            return ST['INVALID_CLASS']
        return None


def inst_view(inst):
    """{lname: canon} of a returned instance."""
    return {n.lower(): canon_value(p.value)
            for n, p in inst.properties.items()}
