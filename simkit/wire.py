"""The `wire` world transport: real WBEMConnection -> requests -> urllib3 ->
http.client on a simulated socket.  The seam is
urllib3.util.connection.create_connection (one assignment, restored on
uninstall); time.sleep (urllib3 retry back-off) runs on a virtual clock.

A `peer` is any callable  peer(request_bytes, exchange_index) -> Reply.
A Reply is a list of actions delivered on the response stream:
    bytes      - deliver these bytes (possibly in several pieces)
    'TIMEOUT'  - the read raises socket.timeout (virtual delay > timeout)
    'RESET'    - the read raises ConnectionResetError
    end of list = EOF.
Connect-level faults: peer may raise Refused before any byte is exchanged.
"""
import io
import errno
import socket as _socket
import time as _time

import urllib3.util.connection as _uconn


class Refused(Exception):
    pass


class SimCrash(BaseException):
    """Client process killed at a request: raised out of the transport."""


class Net:
    """One simulated network for the single-threaded wire world."""

    def __init__(self, peer):
        self.peer = peer
        self.exchanges = []      # dicts: request, reply actions, fault
        self.now = 0.0
        self.sleeps = []
        self.connects = 0
        self._saved = None

    # ------------------------------------------------------------- install
    def install(self):
        self._saved = (_uconn.create_connection, _time.sleep)
        _uconn.create_connection = self._create_connection
        _time.sleep = self._sleep
        return self

    def uninstall(self):
        if self._saved:
            _uconn.create_connection, _time.sleep = self._saved
            self._saved = None

    def __enter__(self):
        return self.install()

    def __exit__(self, *a):
        self.uninstall()

    def _sleep(self, secs):
        self.now += max(0.0, secs)
        self.sleeps.append(secs)

    def _create_connection(self, address, timeout=None, source_address=None,
                           socket_options=None):
        self.connects += 1
        pre = getattr(self.peer, 'on_connect', None)
        if pre is not None:
            try:
                pre(self.connects)
            except Refused:
                raise ConnectionRefusedError(errno.ECONNREFUSED,
                                             'Connection refused')
        return _ClientSock(self, address)


class _ClientSock:
    def __init__(self, net, address):
        self.net = net
        self.address = address
        self.sent = bytearray()
        self.timeout = None
        self.closed = False
        self._stream = None

    def settimeout(self, t):
        self.timeout = t

    def gettimeout(self):
        return self.timeout

    def setsockopt(self, *a):
        pass

    def getpeername(self):
        return self.address

    def sendall(self, b):
        self.sent += bytes(b)

    def send(self, b):
        self.sent += bytes(b)
        return len(b)

    def makefile(self, mode, *a, **k):
        req = bytes(self.sent)
        idx = len(self.net.exchanges)
        ex = {'request': req, 'reply': None}
        self.net.exchanges.append(ex)
        actions = self.net.peer(req, idx)
        ex['reply'] = actions
        return _Stream(list(actions), self)

    def shutdown(self, how):
        pass

    def close(self):
        self.closed = True

    def fileno(self):
        return -1


class _Stream(io.RawIOBase):
    def __init__(self, actions, sock):
        super().__init__()
        self.actions = actions
        self.sock = sock

    def readable(self):
        return True

    def readinto(self, b):
        while self.actions and self.actions[0] == b'':
            self.actions.pop(0)
        if not self.actions:
            return 0
        a = self.actions[0]
        if a == 'TIMEOUT':
            self.actions.pop(0)
            t = self.sock.timeout
            self.sock.net.now += t if t else 0.0
            raise _socket.timeout('timed out')
        if a == 'RESET':
            self.actions.pop(0)
            raise ConnectionResetError(errno.ECONNRESET,
                                       'Connection reset by peer')
        if isinstance(a, tuple) and a[0] == 'DELAY':
            self.actions.pop(0)
            self.sock.net.now += a[1]
            return self.readinto(b)
        n = min(len(b), len(a))
        b[:n] = a[:n]
        if n == len(a):
            self.actions.pop(0)
        else:
            self.actions[0] = a[n:]
        return n


def http_response(body, status=200, reason='OK', headers=None,
                  content_type='application/xml; charset=utf-8',
                  content_length=True, version='HTTP/1.1'):
    """Serialise an HTTP response (bytes)."""
    lines = ['%s %d %s' % (version, status, reason)]
    if content_type is not None:
        lines.append('Content-Type: %s' % content_type)
    lines.append('Connection: close')
    if content_length is True:
        lines.append('Content-Length: %d' % len(body))
    elif content_length is not None and content_length is not False:
        lines.append('Content-Length: %s' % content_length)
    for k, v in (headers or []):
        lines.append('%s: %s' % (k, v))
    head = ('\r\n'.join(lines) + '\r\n\r\n').encode('latin-1', 'replace')
    return head + body


def split_http_request(raw):
    """(request line, header dict (lower-case keys), body) of request bytes."""
    head, _, body = raw.partition(b'\r\n\r\n')
    lines = head.decode('latin-1').split('\r\n')
    hdrs = {}
    for ln in lines[1:]:
        k, _, v = ln.partition(':')
        hdrs[k.strip().lower()] = v.strip()
    return lines[0], hdrs, body
