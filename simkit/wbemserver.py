"""Simulated WBEM server for the `wire` world.

Real parts: pywbem's server-side CIM-XML parser (TupleParser.parse_cim ->
parse_simplereq / parse_imethodcall / parse_methodcall / parse_iparamvalue),
the pywbem_mock repository + provider stack (reached through
FakedWBEMConnection._mock_imethodcall / _mock_methodcall) and pywbem's
_cim_xml element classes / tocimxml() for encoding the reply.

Stub parts (this file): HTTP framing, the per-operation table that types the
untyped IPARAMVALUE strings as DSP0200 defines them, the per-operation choice
of response element, CIMError -> <ERROR> mapping.
"""
import re
import copy

from pywbem import _cim_xml as X
from pywbem import (CIMInstance, CIMInstanceName, CIMClass, CIMClassName,
                    CIMQualifierDeclaration, CIMError, Uint32, CIMDateTime)
from pywbem._cim_types import CIMType, atomic_to_cim_xml
from pywbem._cim_obj import cimvalue
from pywbem._tupleparse import TupleParser
from pywbem._tupletree import xml_to_tupletree_sax
from pywbem._utils import _ensure_unicode

from . import wire

BOOL_PARAMS = {'localonly', 'deepinheritance', 'includequalifiers',
               'includeclassorigin', 'continueonerror',
               'returnqueryresultclass'}
UINT32_PARAMS = {'maxobjectcount', 'operationtimeout'}

VOID_OPS = {'ModifyInstance', 'DeleteInstance', 'CreateClass', 'ModifyClass',
            'DeleteClass', 'SetQualifier', 'DeleteQualifier',
            'CloseEnumeration'}
WITHPATH_OPS = {'OpenEnumerateInstances', 'OpenReferenceInstances',
                'OpenAssociatorInstances', 'PullInstancesWithPath'}
PATH_OPS = {'OpenEnumerateInstancePaths', 'OpenReferenceInstancePaths',
            'OpenAssociatorInstancePaths', 'PullInstancePaths'}
PLAININST_OPS = {'GetInstance', 'OpenQueryInstances', 'PullInstances',
                 'ExecQuery'}


def typed_value(val, ptype):
    """Type the untyped string content of a PARAMVALUE (server stub)."""
    if val is None:
        return None
    if isinstance(val, list):
        return [typed_value(v, ptype) for v in val]
    if ptype == 'boolean' and isinstance(val, str):
        return val.strip().lower() == 'true'
    return cimvalue(val, ptype)


def lnp(ns):
    return X.LOCALNAMESPACEPATH([X.NAMESPACE(n) for n in ns.split('/')])


class ServerInternalError(Exception):
    """The provider stack raised something that is not a CIMError."""


class SimWBEMServer:
    def __init__(self, faked, host=None):
        self.f = faked
        self.host = host or faked.host
        self.seen = []          # decoded requests, in order
        self.internal_errors = []
        self.pre_exec = None    # hook(name, ns, params) may raise CIMError
        self.executed = 0

    # ------------------------------------------------------------ decoding
    lenient_scope_any = True

    def decode(self, body):
        if self.lenient_scope_any and b' ANY="' in body:
            # pywbem emits <SCOPE ANY="false" .../> (not in the DTD; known
            # finding of C03).  Like a lenient server this stub ignores the
            # attribute so that SetQualifier can be compared at all.
            body = re.sub(rb'(<SCOPE[^>]*?) ANY="(?:true|false)"', rb'\1',
                          body)
            self.scope_any_tolerated = getattr(
                self, 'scope_any_tolerated', 0) + 1
        tt = xml_to_tupletree_sax(body, 'CIM-XML request')
        tp = TupleParser()
        cim = tp.parse_cim(tt)
        msg = cim[2]
        msgid = msg[1]['ID']
        sreq = msg[2]
        if sreq[0] == 'SIMPLEEXPREQ':
            # an export request (the peer acts as a listener)
            return msgid, sreq[2]
        if sreq[0] != 'SIMPLEREQ':
            raise ValueError('not a SIMPLEREQ: %s' % sreq[0])
        call = sreq[2]
        return msgid, call

    def type_iparams(self, plist):
        params = {}
        for k, v in plist:
            kl = k.lower()
            if kl in BOOL_PARAMS and isinstance(v, str):
                v = (v.lower() == 'true')
            elif kl in UINT32_PARAMS and v is not None:
                v = Uint32(int(v))
            params[k] = v
        return params

    # ------------------------------------------------------------ encoding
    def _inst_path(self, path, ns, with_host):
        p = path.copy()
        if with_host:
            p.host = p.host or self.host
            p.namespace = p.namespace or ns
        else:
            p.host = None
            p.namespace = None
        return p

    def enc_obj(self, op, ns, o):
        if isinstance(o, tuple) and len(o) == 3 and o[0] in (
                'OBJECTPATH', 'VALUE.OBJECT'):
            o = o[2]
        if isinstance(o, CIMInstance) and op == 'ExecQuery':
            # (VALUE.OBJECT | VALUE.OBJECTWITHLOCALPATH | VALUE.OBJECTWITHPATH)
            if o.path is None:
                return X.VALUE_OBJECT(o.tocimxml(ignore_path=True))
            lp = self._inst_path(o.path, ns, True)
            lp.host = None
            return X.VALUE_OBJECTWITHLOCALPATH(
                lp.tocimxml(), o.tocimxml(ignore_path=True))
        if isinstance(o, CIMInstance):
            if op == 'EnumerateInstances':
                return X.VALUE_NAMEDINSTANCE(
                    self._inst_path(o.path, ns, False).tocimxml(),
                    o.tocimxml(ignore_path=True))
            if op in PLAININST_OPS:
                return o.tocimxml(ignore_path=True)
            if op in WITHPATH_OPS:
                return X.VALUE_INSTANCEWITHPATH(
                    self._inst_path(o.path, ns, True).tocimxml(),
                    o.tocimxml(ignore_path=True))
            if op in ('Associators', 'References'):
                return X.VALUE_OBJECTWITHPATH(
                    self._inst_path(o.path, ns, True).tocimxml(),
                    o.tocimxml(ignore_path=True))
        if isinstance(o, CIMInstanceName):
            if op in ('EnumerateInstanceNames', 'CreateInstance'):
                return self._inst_path(o, ns, False).tocimxml()
            p = self._inst_path(o, ns, True)
            if op in ('AssociatorNames', 'ReferenceNames'):
                return X.OBJECTPATH(p.tocimxml())
            return p.tocimxml()      # INSTANCEPATH for open/pull path ops
        if isinstance(o, CIMClass):
            return o.tocimxml()
        if isinstance(o, CIMClassName):
            if op == 'EnumerateClassNames':
                return X.CLASSNAME(o.classname)
            p = o.copy()
            p.host = p.host or self.host
            p.namespace = p.namespace or ns
            return X.OBJECTPATH(p.tocimxml())
        if isinstance(o, str) and op == 'EnumerateClassNames':
            return X.CLASSNAME(o)
        if isinstance(o, CIMQualifierDeclaration):
            return o.tocimxml()
        if isinstance(o, tuple) and len(o) == 2:   # (classpath, class)
            p = o[0].copy()
            p.host = p.host or self.host
            p.namespace = p.namespace or ns
            return X.VALUE_OBJECTWITHPATH(p.tocimxml(), o[1].tocimxml())
        raise TypeError('cannot encode %r for %s' % (type(o), op))

    def encode_iresult(self, op, ns, res):
        if res is None:
            return None
        out = []
        for node in res:
            if node[0] == 'IRETURNVALUE':
                out.append(X.IRETURNVALUE(
                    [self.enc_obj(op, ns, o) for o in node[2]]))
            else:
                pname, _, val = node
                if pname == 'EndOfSequence':
                    if isinstance(val, str):
                        txt = val.upper()
                    else:
                        txt = 'TRUE' if val else 'FALSE'
                    out.append(X.PARAMVALUE(pname, X.VALUE(txt), 'boolean'))
                elif pname == 'EnumerationContext':
                    out.append(X.PARAMVALUE(
                        pname, None if val is None else X.VALUE(val),
                        'string'))
                elif pname == 'QueryResultClass':
                    if val is not None:
                        out.append(X.PARAMVALUE(pname, val.tocimxml()))
                else:
                    raise TypeError(pname)
        return out

    @staticmethod
    def value_node(obj):
        if isinstance(obj, (CIMType, bool, str)):
            return X.VALUE(atomic_to_cim_xml(obj))
        if isinstance(obj, (CIMClassName, CIMInstanceName)):
            return X.VALUE_REFERENCE(obj.tocimxml())
        if isinstance(obj, CIMInstance):
            return X.VALUE(obj.tocimxml(ignore_path=True).toxml())
        if isinstance(obj, CIMClass):
            return X.VALUE(obj.tocimxml().toxml())
        if isinstance(obj, list):
            if any(isinstance(x, (CIMClassName, CIMInstanceName))
                   for x in obj):
                return X.VALUE_REFARRAY([
                    X.VALUE_NULL() if x is None
                    else SimWBEMServer.value_node(x) for x in obj])
            return X.VALUE_ARRAY([
                X.VALUE_NULL() if x is None else SimWBEMServer.value_node(x)
                for x in obj])
        if obj is None:
            return None
        raise TypeError('cannot encode value %r' % (type(obj),))

    @staticmethod
    def type_of(obj):
        if isinstance(obj, list):
            for x in obj:
                if x is not None:
                    return SimWBEMServer.type_of(x)
            return 'string'
        if isinstance(obj, CIMType):
            return obj.cimtype
        if isinstance(obj, bool):
            return 'boolean'
        if isinstance(obj, (CIMClassName, CIMInstanceName)):
            return 'reference'
        return 'string'

    @staticmethod
    def embedded_of(obj):
        if isinstance(obj, list):
            for x in obj:
                if x is not None:
                    return SimWBEMServer.embedded_of(x)
            return None
        if isinstance(obj, CIMClass):
            return 'object'
        if isinstance(obj, CIMInstance):
            return 'instance'
        return None

    # ----------------------------------------------------------- execution
    def handle_body(self, body):
        """CIM-XML request body -> CIM-XML response body (bytes)."""
        msgid, call = self.decode(body)
        if call[0] == 'EXPMETHODCALL':
            name = call[1]['NAME']
            self.seen.append({'kind': 'export', 'name': name,
                              'params': copy.deepcopy(call[2]),
                              'outcome': 'ok'})
            self.executed += 1
            doc = X.CIM(X.MESSAGE(X.SIMPLEEXPRSP(X.EXPMETHODRESPONSE(name)),
                                  msgid, '1.0'), '2.0', '2.0')
            return ('<?xml version="1.0" encoding="utf-8" ?>\n' +
                    doc.toxml()).encode('utf-8')
        if call[0] == 'IMETHODCALL':
            _, attrs, ns, plist = call
            name = attrs['NAME']
            params = self.type_iparams(plist)
            rec = {'kind': 'imethod', 'name': name, 'ns': ns,
                   'params': copy.deepcopy(params)}
            self.seen.append(rec)
            try:
                if self.pre_exec:
                    self.pre_exec(name, ns, params)
                self.executed += 1
                res = self.f._mock_imethodcall(name, ns, **params)
                kids = self.encode_iresult(name, ns, res)
                rec['outcome'] = 'ok'
            except CIMError as e:
                kids = X.ERROR(str(e.status_code), e.status_description)
                rec['outcome'] = 'cimerror:%s' % e.status_code
            rsp = X.IMETHODRESPONSE(name, kids)
        elif call[0] == 'METHODCALL':
            _, attrs, path, plist = call
            name = attrs['NAME']
            typed = []
            for pn, ptype, pval in plist:
                if ptype is not None and ptype != 'reference' and \
                        not isinstance(pval, (CIMInstance, CIMClass)) and \
                        not (isinstance(pval, list) and pval and
                             isinstance(pval[0], (CIMInstance, CIMClass))):
                    pval = typed_value(pval, ptype)
                typed.append((pn, ptype, pval))
            rec = {'kind': 'method', 'name': name,
                   'path': copy.deepcopy(path),
                   'params': copy.deepcopy(typed)}
            self.seen.append(rec)
            try:
                if self.pre_exec:
                    self.pre_exec(name, path.namespace, dict(
                        (p[0], p[2]) for p in typed))
                self.executed += 1
                from pywbem import CIMParameter
                plist2 = []
                for pn, ptype, pv in typed:
                    is_array = isinstance(pv, list)
                    if pv is None or ptype is None:
                        # a NULL value carries no array-ness, and a NULL
                        # value, an empty array and an array starting with
                        # NULL carry no type on the wire: like a real
                        # server, take both from the method declaration
                        decl = self._declared_param(path, name, pn)
                        if decl is not None:
                            if pv is None:
                                is_array = decl.is_array
                            if ptype is None:
                                ptype = decl.type
                                if pv is not None and ptype != 'reference':
                                    pv = typed_value(pv, ptype)
                    plist2.append(CIMParameter(
                        pn, ptype or self.type_of(pv), value=pv,
                        is_array=is_array,
                        embedded_object=self.embedded_of(pv)))
                rec['params'] = copy.deepcopy(
                    [(q.name, q.type, q.value) for q in plist2])
                rv, outp = self.f._mock_methodcall(name, path, plist2)
                kids = []
                if rv is not None:
                    kids.append(X.RETURNVALUE(
                        self.value_node(rv), self.type_of(rv),
                        embedded_object=self.embedded_of(rv)))
                for pn in outp:
                    pv = outp[pn]
                    kids.append(X.PARAMVALUE(
                        pn, self.value_node(pv), self.type_of(pv),
                        embedded_object=self.embedded_of(pv)))
                rec['outcome'] = 'ok'
            except CIMError as e:
                kids = X.ERROR(str(e.status_code), e.status_description)
                rec['outcome'] = 'cimerror:%s' % e.status_code
            rsp = X.METHODRESPONSE(name, kids)
        else:
            raise ValueError('unsupported call element %s' % call[0])
        doc = X.CIM(X.MESSAGE(X.SIMPLERSP(rsp), msgid, '1.0'), '2.0', '2.0')
        xml = doc.toxml()
        if self.lenient_scope_any and ' ANY="' in xml:
            # the stub encodes with pywbem's own emitter, which writes the
            # non-DTD attribute SCOPE/@ANY that pywbem's parser rejects
            xml = re.sub(r'(<SCOPE[^>]*?) ANY="(?:true|false)"', r'\1', xml)
        return ('<?xml version="1.0" encoding="utf-8" ?>\n' +
                xml).encode('utf-8')

    def _declared_param(self, path, methodname, pname):
        try:
            ns = path.namespace
            store = self.f.cimrepository.get_class_store(ns)
            klass = store.get(path.classname)
            return klass.methods[methodname].parameters[pname]
        except Exception:  # pylint: disable=broad-except
            return None

    def handle_http(self, raw):
        """Full HTTP request bytes -> full HTTP response bytes."""
        _line, _hdrs, body = wire.split_http_request(raw)
        try:
            rb = self.handle_body(body)
        except CIMError:
            raise
        except Exception as e:  # pylint: disable=broad-except
            # provider stack / decoder failed with a non-CIM exception
            import traceback
            tb = traceback.extract_tb(e.__traceback__)
            where = '%s:%d %s' % (tb[-1].filename.rsplit('/', 1)[-1],
                                  tb[-1].lineno, tb[-1].name) if tb else ''
            self.internal_errors.append(
                (type(e).__name__, str(e)[:300], where))
            if self.seen:
                self.seen[-1]['outcome'] = 'internal:%s' % type(e).__name__
            return wire.http_response(
                b'', 500, 'Internal Server Error',
                headers=[('X-Sim-Exception', type(e).__name__)],
                content_type=None)
        return wire.http_response(rb)

    def __call__(self, raw, idx):
        return [self.handle_http(raw)]
