"""Seeded generator of small CIM models (qualifier declarations, class trees
with properties of all CIM types, methods, association classes, instances)
described as plain JSON-able data ("specs"), plus converters from specs to
pywbem objects and builders that load a model into a FakedWBEMConnection.

Spec conventions
  value spec : {'t': type, 'v': scalar}  |  {'t': type, 'a': [scalar|None..]}
               scalar for 'reference' is a path spec, for 'datetime' a string,
               for reals a float or 'inf'/'-inf'; 'v': None = NULL
  path spec  : {'cls': name, 'ns': ns|None, 'keys': {name: value spec}}
  class spec : {'name','super','assoc':bool,'props':[prop],'methods':[meth]}
  prop       : {'name','type','array':bool,'key':bool,'ref':cls|None}
  inst spec  : {'cls','props': {name: value spec}}
  embedded   : (models generated with extras=True) string properties with
               'emb': 'instance'|'object' and 'embcls'; their scalars are
               {'$emb': inst spec} or {'$embcls': class spec}; a property
               with 'keyfalse' carries the qualifier Key(false)
"""
import pickle

import pywbem
import pywbem_mock
from pywbem import (CIMClass, CIMProperty, CIMMethod, CIMParameter,
                    CIMQualifier, CIMQualifierDeclaration, CIMInstance,
                    CIMInstanceName, CIMDateTime)

from .prng import stream

INT_TYPES = ['uint8', 'sint8', 'uint16', 'sint16', 'uint32', 'sint32',
             'uint64', 'sint64']
SIMPLE_TYPES = ['boolean', 'string', 'char16', 'real32', 'real64',
                'datetime'] + INT_TYPES
KEY_TYPES = ['string', 'uint32', 'sint16', 'boolean', 'uint64', 'char16',
             'datetime']

STRINGS = ['', 'a', 'Abc', ' lead and trail ', 'äöü', '€uro',
           '\U0001d11e clef', 'tab\there', 'line\nfeed', '<&>"\'', ']]>',
           'x' * 300, 'ÄÖÜ ß', '%41 %', 'a,b=c.d:e/f', '中文字',
           '0', 'true', '1e5', '  ', '\\back\\slash', '{curly}']
DATETIMES = ['20260925120000.123456+060', '19991231235959.000000-720',
             '00000012345959.000000:000', '20000229******.******+000',
             '99999999235959.999999:000', '20260101000000.000000+000']


def int_range(t):
    bits = int(t[4:])
    if t[0] == 'u':
        return 0, 2 ** bits - 1
    return -(2 ** (bits - 1)), 2 ** (bits - 1) - 1


def gen_scalar(r, t, allow_cr=False):
    if t == 'boolean':
        return r.random() < 0.5
    if t == 'string':
        s = r.choice(STRINGS)
        if allow_cr and r.random() < 0.03:
            s = 'car\rret'
        if r.random() < 0.3:
            s = s + str(r.randrange(1000))
        return s
    if t == 'char16':
        return r.choice(['a', 'Z', 'ä', '€', '0', ' '])
    if t in INT_TYPES:
        lo, hi = int_range(t)
        return r.choice([lo, hi, 0 if lo <= 0 else lo, 1,
                         r.randint(lo, hi), r.randint(lo, hi)])
    if t in ('real32', 'real64'):
        return r.choice([0.0, 1.5, -0.25, 1e10, 3.0e-5, 123456.75, -1.0,
                         'inf', '-inf', 2.5e30])
    if t == 'datetime':
        return r.choice(DATETIMES)
    raise ValueError(t)


def gen_value(r, t, array=False, null_p=0.1, allow_cr=False):
    if array:
        if r.random() < null_p:
            return {'t': t, 'a': None}
        n = r.choice([0, 1, 2, 3])
        items = [None if r.random() < 0.15 else gen_scalar(r, t, allow_cr)
                 for _ in range(n)]
        return {'t': t, 'a': items}
    if r.random() < null_p:
        return {'t': t, 'v': None}
    return {'t': t, 'v': gen_scalar(r, t, allow_cr)}


# ------------------------------------------------------------- converters
def scalar_to_cim(t, v):
    if v is None:
        return None
    if isinstance(v, dict) and '$emb' in v:
        return inst_to_cim(v['$emb'])
    if isinstance(v, dict) and '$embcls' in v:
        return class_to_cim(v['$embcls'])
    if t in ('real32', 'real64'):
        if v == 'inf':
            v = float('inf')
        elif v == '-inf':
            v = float('-inf')
    if t == 'reference':
        return path_to_cim(v)
    if t == 'datetime':
        return CIMDateTime(v)
    return pywbem.cimvalue(v, t)


def _to_py_datetime(v):
    """A Python datetime / timedelta for a fully specified CIM datetime."""
    if v is None:
        return None
    d = CIMDateTime(v)
    return d.timedelta if d.is_interval else d.datetime


def value_to_cim(spec):
    t = spec['t']
    if spec.get('py') and t == 'datetime':
        if 'a' in spec:
            return None if spec['a'] is None else \
                [_to_py_datetime(x) for x in spec['a']]
        return _to_py_datetime(spec['v'])
    if 'a' in spec:
        if spec['a'] is None:
            return None
        return [scalar_to_cim(t, x) for x in spec['a']]
    return scalar_to_cim(t, spec['v'])


def path_to_cim(ps, host=None):
    kb = {}
    for k, vs in ps['keys'].items():
        kb[k] = value_to_cim(vs)
    return CIMInstanceName(ps['cls'], keybindings=kb,
                           namespace=ps.get('ns'), host=host)


def prop_to_cim(name, spec, propdesc=None):
    t = spec['t']
    is_array = 'a' in spec
    kw = {}
    if t == 'reference':
        kw['reference_class'] = (propdesc or {}).get('ref')
    if (propdesc or {}).get('emb'):
        kw['embedded_object'] = propdesc['emb']
    return CIMProperty(name, value_to_cim(spec), type=t, is_array=is_array,
                       **kw)


def inst_to_cim(ispec, cdesc=None, with_path=None):
    props = []
    pd = {p['name']: p for p in (cdesc['props'] if cdesc else [])}
    for n, vs in ispec['props'].items():
        props.append(prop_to_cim(n, vs, pd.get(n)))
    inst = CIMInstance(ispec['cls'], properties=props)
    if with_path is not None:
        inst.path = path_to_cim(with_path)
    return inst


QUALS = [
    ('Key', 'boolean', False, ['property', 'reference'],
     dict(overridable=False, tosubclass=True)),
    ('Association', 'boolean', False, ['association'],
     dict(overridable=False, tosubclass=True)),
    ('Description', 'string', None, ['any'],
     dict(overridable=True, tosubclass=True, translatable=True)),
    ('Static', 'boolean', False, ['method', 'property'],
     dict(overridable=False, tosubclass=True)),
    ('In', 'boolean', True, ['parameter'],
     dict(overridable=False, tosubclass=True)),
    ('Out', 'boolean', False, ['parameter'],
     dict(overridable=False, tosubclass=True)),
    ('Override', 'string', None, ['property', 'method', 'reference'],
     dict(overridable=True, tosubclass=False)),
    ('MaxLen', 'uint32', None, ['property', 'method', 'parameter'],
     dict(overridable=True, tosubclass=True)),
    ('Abstract', 'boolean', False, ['class', 'association', 'indication'],
     dict(overridable=True, tosubclass=False)),
    ('EmbeddedInstance', 'string', None, ['property', 'method', 'parameter'],
     dict(overridable=True, tosubclass=True)),
]


EXTRA_QUALS = [
    ('EmbeddedObject', 'boolean', False, ['property', 'method', 'parameter'],
     dict(overridable=False, tosubclass=True)),
]


def qualifier_decls(extras=False):
    out = []
    for name, t, val, scopes, flav in QUALS + (EXTRA_QUALS if extras else []):
        # full scope table, as the MOF compiler creates it (pywbem_mock
        # indexes scopes[...] without a default)
        sc = {k: (k.lower() in scopes)
              for k in ('CLASS', 'ASSOCIATION', 'INDICATION', 'PROPERTY',
                        'REFERENCE', 'METHOD', 'PARAMETER', 'ANY')}
        fl = dict(overridable=True, tosubclass=True, translatable=False,
                  toinstance=False)
        fl.update(flav)
        out.append(CIMQualifierDeclaration(
            name, t, value=val, scopes=sc, is_array=False, **fl))
    return out


_QFLAV = {q[0]: q[4] for q in QUALS + EXTRA_QUALS}


def mkqual(name, value):
    """A qualifier value with the flavors of its declaration set explicitly
    (an unset flavor means "default of DSP0201" on the wire but "take it from
    the declaration" inside pywbem_mock, so unset flavors are not comparable
    between the two paths)."""
    f = _QFLAV[name]
    return CIMQualifier(name, value,
                        overridable=f.get('overridable', True),
                        tosubclass=f.get('tosubclass', True),
                        translatable=f.get('translatable', False),
                        toinstance=False, propagated=False)


def class_to_cim(cd):
    props = []
    for p in cd['props']:
        quals = []
        if p.get('key'):
            quals.append(mkqual('Key', True))
        elif p.get('keyfalse'):
            quals.append(mkqual('Key', False))
        if p.get('desc'):
            quals.append(mkqual('Description', p['desc']))
        kw = {}
        if p['type'] == 'reference':
            kw['reference_class'] = p['ref']
        if p.get('emb') == 'instance':
            quals.append(mkqual('EmbeddedInstance', p['embcls']))
            kw['embedded_object'] = 'instance'
        elif p.get('emb') == 'object':
            quals.append(mkqual('EmbeddedObject', True))
            kw['embedded_object'] = 'object'
        props.append(CIMProperty(
            p['name'], None, type=p['type'], is_array=p.get('array', False),
            qualifiers=quals, **kw))
    meths = []
    for m in cd.get('methods', []):
        params = []
        for q in m['params']:
            kw = {}
            if q['type'] == 'reference':
                kw['reference_class'] = q.get('ref')
            params.append(CIMParameter(
                q['name'], q['type'], is_array=q.get('array', False),
                qualifiers=[mkqual('In', q.get('in', True)),
                            mkqual('Out', q.get('out', False))], **kw))
        mq = [mkqual('Static', True)] if m.get('static') else []
        meths.append(CIMMethod(m['name'], m['rtype'], parameters=params,
                               qualifiers=mq))
    quals = []
    if cd.get('assoc'):
        quals.append(mkqual('Association', True))
    if cd.get('desc'):
        quals.append(mkqual('Description', cd['desc']))
    return CIMClass(cd['name'], properties=props, methods=meths,
                    superclass=cd.get('super'), qualifiers=quals)


# --------------------------------------------------------------- generator
def gen_model(seed, nns=None, allow_cr=False, with_methods=True,
              max_inst=7, extras=False):
    """Returns a JSON-able model description.  extras=True adds (from a
    stream of its own, so that everything else stays as it is without them)
    embedded-instance / embedded-object properties and Key(false)
    qualifiers."""
    r = stream(seed, 'model')
    nns = nns or r.choice([1, 1, 2, 2, 3])
    nspool = ['root/cimv2', 'root/b', 'test/ns/deep']
    namespaces = nspool[:nns]
    classes = []
    ncls = r.randint(2, 6)
    for i in range(ncls):
        name = 'C%d' % i if r.random() < 0.7 else 'Cls_%d' % i
        if i > 0 and r.random() < 0.6:
            sup = r.choice(classes)['name']
        else:
            sup = None
        props = []
        if sup is None:
            nk = r.choice([1, 1, 2])
            for k in range(nk):
                props.append({'name': 'K%d' % k if r.random() < 0.5
                              else 'Key%d' % k,
                              'type': r.choice(KEY_TYPES), 'key': True,
                              'array': False})
        for j in range(r.randint(0, 5)):
            t = r.choice(SIMPLE_TYPES)
            props.append({'name': 'P%d_%d' % (i, j), 'type': t,
                          'array': r.random() < 0.3, 'key': False,
                          'desc': r.choice([None, None, 'd€sc'])})
        methods = []
        if with_methods and r.random() < 0.5:
            mparams = []
            for q in range(r.randint(0, 3)):
                # (some parameter names collide with names pywbem uses
                # internally when it hands the call to its observers)
                pname = 'Ip%d' % q
                if r.random() < 0.12:
                    pname = r.choice(['method', 'Method', 'conn_id', 'params',
                                      'namespace'])
                    if any(x['name'].lower() == pname.lower()
                           for x in mparams):
                        pname = 'Ip%d' % q
                mparams.append({'name': pname,
                                'type': r.choice(SIMPLE_TYPES),
                                'array': r.random() < 0.3,
                                'in': True, 'out': r.random() < 0.3})
            methods.append({'name': 'M%d' % i,
                            'rtype': r.choice(['uint32', 'string', 'boolean',
                                               'sint64', 'datetime']),
                            'params': mparams,
                            'static': r.random() < 0.4})
        classes.append({'name': name, 'super': sup, 'props': props,
                        'methods': methods, 'assoc': False,
                        'desc': r.choice([None, 'class d'])})
    # association classes
    nassoc = r.choice([0, 1, 1, 2])
    roots = list(classes)
    for a in range(nassoc):
        nrefs = r.choice([2, 2, 2, 3])
        props = []
        third_key = r.random() < 0.5
        for k in range(nrefs):
            props.append({'name': ['Ante', 'Dep', 'Third'][k],
                          'type': 'reference',
                          'key': True if k < 2 else third_key,
                          'array': False,
                          'ref': r.choice(roots)['name']})
        if r.random() < 0.4:
            props.append({'name': 'Weight', 'type': 'uint16', 'key': False,
                          'array': False})
        classes.append({'name': 'A%d' % a, 'super': None, 'props': props,
                        'methods': [], 'assoc': True, 'desc': None})
        if r.random() < 0.3:
            classes.append({'name': 'A%dSub' % a, 'super': 'A%d' % a,
                            'props': [{'name': 'Extra', 'type': 'string',
                                       'key': False, 'array': False}],
                            'methods': [], 'assoc': True, 'desc': None})
    # reference-typed method parameters (scalar and array), from a stream of
    # their own
    rx = stream(seed, 'model-refparams')
    for ci, c in enumerate(classes):
        for m in c['methods']:
            if rx.random() < 0.4:
                m['params'].append({
                    'name': 'RefP', 'type': 'reference',
                    'array': rx.random() < 0.6, 'in': True,
                    'out': rx.random() < 0.3,
                    # (the mock wants the referenced class to exist)
                    'ref': rx.choice([x for x in classes[:ci + 1]
                                      if not x['assoc']])['name']})
    model = {'seed': seed, 'namespaces': namespaces, 'classes': classes,
             'instances': {}}
    cmap = {c['name']: c for c in classes}
    # instances per namespace
    for ns in namespaces:
        insts = []
        plain = [c for c in classes if not c['assoc']]
        for _ in range(r.randint(1, max_inst)):
            c = r.choice(plain)
            ap = all_props(cmap, c['name'])
            props = {}
            for p in ap:
                if p['key']:
                    props[p['name']] = gen_value(r, p['type'], False, 0.0)
                elif r.random() < 0.8:
                    props[p['name']] = gen_value(r, p['type'],
                                                 p.get('array', False), 0.15,
                                                 allow_cr)
            ispec = {'cls': c['name'], 'props': props}
            if not any(same_path(cmap, ispec, o) for o in insts):
                insts.append(ispec)
        # association instances
        for c in [c for c in classes if c['assoc']]:
            for _ in range(r.randint(0, 3)):
                ap = all_props(cmap, c['name'])
                props = {}
                ok = True
                for p in ap:
                    if p['type'] == 'reference':
                        cands = [i for i in insts
                                 if is_subclass(cmap, i['cls'], p['ref'])]
                        if not cands:
                            ok = False
                            break
                        tgt = r.choice(cands)
                        props[p['name']] = {'t': 'reference',
                                            'v': path_of(cmap, tgt, ns)}
                    elif r.random() < 0.7:
                        props[p['name']] = gen_value(r, p['type'], False)
                if ok:
                    ispec = {'cls': c['name'], 'props': props}
                    if not any(same_path(cmap, ispec, o) for o in insts):
                        insts.append(ispec)
        model['instances'][ns] = insts
    if extras:
        model['extras'] = True
        rx = stream(seed, 'model-extras')
        plain = [c for c in classes if not c['assoc']]
        for i, c in enumerate(plain):
            if rx.random() < 0.45:
                kind = rx.choice(['instance', 'instance', 'object'])
                c['props'].append({
                    'name': 'Emb%d' % i, 'type': 'string',
                    'array': rx.random() < 0.25, 'key': False, 'emb': kind,
                    # (the mock wants the embedded class to exist already)
                    'embcls': rx.choice(plain[:i + 1])['name']
                    if kind == 'instance' else None})
            nonkey = [p for p in c['props'] if not p['key'] and
                      not p.get('emb')]
            if nonkey and rx.random() < 0.3:
                rx.choice(nonkey)['keyfalse'] = True
    return model


def gen_embedded(r, cmap, cname, unknown=False):
    """Scalar spec of an embedded instance of class cname (an instance of
    an undeclared class if unknown)."""
    props = {}
    for p in all_props(cmap, cname):
        if p.get('emb') or p['type'] == 'reference':
            continue
        if p['key'] or r.random() < 0.5:
            props[p['name']] = gen_value(r, p['type'], p.get('array', False),
                                         0.0 if p['key'] else 0.15)
    return {'$emb': {'cls': 'NoSuchEmb' if unknown else cname,
                     'props': props}}


def all_props(cmap, cname):
    chain = []
    while cname is not None:
        c = cmap[cname]
        chain.append(c)
        cname = c['super']
    out = []
    for c in reversed(chain):
        out.extend(c['props'])
    return out


def is_subclass(cmap, cname, sup):
    while cname is not None:
        if cname == sup:
            return True
        cname = cmap[cname]['super']
    return False


def key_props(cmap, cname):
    return [p for p in all_props(cmap, cname) if p.get('key')]


def path_of(cmap, ispec, ns):
    keys = {}
    for p in key_props(cmap, ispec['cls']):
        keys[p['name']] = ispec['props'][p['name']]
    return {'cls': ispec['cls'], 'ns': ns, 'keys': keys}


def same_path(cmap, a, b):
    if a['cls'].lower() != b['cls'].lower():
        return False
    try:
        pa = path_to_cim(path_of(cmap, a, None))
        pb = path_to_cim(path_of(cmap, b, None))
    except KeyError:
        return False
    return pa == pb


# ------------------------------------------------------------------ builder
_BLOBS = {}


def build(model, conn=None, **conn_kw):
    """Load the model into a (new) FakedWBEMConnection using the public
    operations of the mock (SetQualifier, CreateClass, CreateInstance)."""
    c = conn or pywbem_mock.FakedWBEMConnection(**conn_kw)
    cmap = {cd['name']: cd for cd in model['classes']}
    for ns in model['namespaces']:
        if ns not in c.namespaces:
            c.add_namespace(ns)
        for q in qualifier_decls(model.get('extras', False)):
            c.SetQualifier(q, namespace=ns)
        for cd in model['classes']:
            c.CreateClass(class_to_cim(cd), namespace=ns)
        for ispec in model['instances'].get(ns, []):
            inst = inst_to_cim(ispec, cmap[ispec['cls']])
            c.CreateInstance(inst, namespace=ns)
    return c


def snapshot(conn):
    return pickle.dumps(conn.cimrepository._repository)  # noqa


def restore(blob, **conn_kw):
    c = pywbem_mock.FakedWBEMConnection(**conn_kw)
    c.cimrepository._repository = pickle.loads(blob)  # noqa
    return c


def fresh_conn(model, **conn_kw):
    """A new FakedWBEMConnection holding the model; built once per process
    per model seed, afterwards restored from a pickle snapshot."""
    key = (model['seed'], len(model['classes']),
           sum(len(v) for v in model['instances'].values()),
           model.get('extras', False))
    blob = _BLOBS.get(key)
    if blob is None:
        c = build(model)
        blob = snapshot(c)
        if len(_BLOBS) > 600:
            _BLOBS.clear()
        _BLOBS[key] = blob
    return restore(blob, **conn_kw)


def dump_repo(conn, normfn=None):
    """Deterministic dump of the complete repository content.  normfn, if
    given, is applied to a deep copy of every object before it is dumped."""
    import copy as _copy
    out = []
    rep = conn.cimrepository
    if normfn is None:
        def nf(o):
            return o
    else:
        def nf(o):
            o = _copy.deepcopy(o)
            normfn(o)
            return o
    for ns in sorted(rep.namespaces, key=lambda s: s.lower()):
        out.append(('NS', ns.lower()))
        cl = sorted(rep.get_class_store(ns).iter_values(),
                    key=lambda c: c.classname.lower())
        for c in cl:
            out.append(('C', c.classname.lower(), nf(c).tocimxmlstr()))
        qs = sorted(rep.get_qualifier_store(ns).iter_values(),
                    key=lambda q: q.name.lower())
        for q in qs:
            out.append(('Q', q.name.lower(),
                        nf(q).tocimxmlstr().replace(' ANY="false"', '')))
        ins = sorted(((i.path.to_wbem_uri('canonical'),
                       nf(i).tocimxmlstr(ignore_path=False))
                      for i in rep.get_instance_store(ns).iter_values()))
        for u, x in ins:
            out.append(('I', u, x))
    return out


def enable_query(conn, shared=False):
    """Give the mock server a (stub) query engine: 'select * from <class>'
    returns the instances of the class and its subclasses.  The mock's own
    ExecQuery provider method always raises CIM_ERR_NOT_SUPPORTED; it is
    documented as the place where a user plugs in an implementation.
    shared=True: the engine keeps one result list per (namespace, class),
    refreshes it in place on every call and hands out that same list object
    (an engine with a result cache)."""
    import re as _re
    from pywbem import CIMError, CIM_ERR_INVALID_QUERY
    mp = conn._mainprovider  # noqa
    cache = {}

    def ExecQuery(namespace, QueryLanguage, Query):
        m = _re.search(r'\bfrom\s+([A-Za-z_][A-Za-z0-9_]*)', Query or '',
                       _re.I)
        if not m:
            raise CIMError(CIM_ERR_INVALID_QUERY, 'no FROM clause')
        res = mp.EnumerateInstances(namespace, m.group(1), LocalOnly=False,
                                    DeepInheritance=True)
        if not shared:
            return res
        lst = cache.setdefault((namespace.lower(), m.group(1).lower()), [])
        lst[:] = res
        return lst
    mp.ExecQuery = ExecQuery
    return conn

