"""Determinism self-test: every run-seed executed twice in this process and
once more in fresh interpreters with a different PYTHONHASHSEED and a
different worker layout; fingerprints and violation signatures must agree.

usage: python -m simkit.selftest C16 [C17 ...] [--n 64] [--procs 4]
"""
import os
import sys
import json
import argparse
import hashlib
import subprocess

from .runner import load_check, run_seed_for


def digests(cid, idxs, seed=0):
    chk = load_check(cid)
    if hasattr(chk, 'worker_init'):
        chk.worker_init('quick')
    out = {}
    for i in idxs:
        rs = run_seed_for(seed, cid, i)
        plan = chk.gen_plan(rs, 'quick', i)
        res = chk.execute(plan)
        out[str(i)] = [res['fingerprint'],
                       sorted(v['sig'] for v in res['violations']),
                       hashlib.sha1(json.dumps(plan, sort_keys=True)
                                    .encode()).hexdigest()[:12]]
    return out


def main():
    ap = argparse.ArgumentParser()
    ap.add_argument('cids', nargs='+')
    ap.add_argument('--n', type=int, default=48)
    ap.add_argument('--procs', type=int, default=4)
    ap.add_argument('--child', action='store_true')
    ap.add_argument('--lo', type=int, default=0)
    ap.add_argument('--hi', type=int, default=0)
    args = ap.parse_args()
    if args.child:
        cid = args.cids[0]
        print(json.dumps(digests(cid, range(args.lo, args.hi))))
        return 0
    rc = 0
    for cid in args.cids:
        cid = cid.upper()
        a = digests(cid, range(args.n))
        b = digests(cid, range(args.n))
        bad = [i for i in a if a[i] != b[i]]
        # fresh interpreters, other hash seed, other slicing
        c = {}
        procs = []
        step = -(-args.n // args.procs)
        for k in range(args.procs):
            env = dict(os.environ, PYTHONHASHSEED=str(1 + k))
            procs.append(subprocess.Popen(
                [sys.executable, '-m', 'simkit.selftest', cid, '--child',
                 '--lo', str(k * step), '--hi',
                 str(min(args.n, (k + 1) * step))],
                env=env, stdout=subprocess.PIPE))
        for p in procs:
            out, _ = p.communicate(timeout=900)
            if p.returncode != 0:
                print('SELFTEST %s: child failed' % cid)
                rc = 2
                continue
            c.update(json.loads(out.decode().strip().splitlines()[-1]))
        bad2 = [i for i in a if c.get(i) != a[i]]
        if bad or bad2:
            rc = 2
            print('SELFTEST %s: NONDETERMINISTIC same-process=%s '
                  'fresh-interpreter=%s' % (cid, bad[:8], bad2[:8]))
            for i in (bad + bad2)[:3]:
                print('   ', i, a[i], b[i], c.get(i))
        else:
            print('SELFTEST %s: %d seeds x 3 executions agree '
                  '(2 in-process, 1 fresh interpreter with other '
                  'PYTHONHASHSEED)' % (cid, args.n))
    return rc


if __name__ == '__main__':
    sys.exit(main())
