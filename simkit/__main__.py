import sys
from simkit.runner import main
sys.exit(main())
