"""simkit - deterministic simulation kernel for the pywbem verification checks.

Importing this package makes sure that ``pywbem`` / ``pywbem_mock`` are
imported from the tree under test: ``$VERIF_REPO`` if set, else ``/repo``.
"""
import os
import sys

REPO = os.path.abspath(os.environ.get('VERIF_REPO', '/repo'))
VERIF = os.path.dirname(os.path.dirname(os.path.abspath(__file__)))

if REPO not in sys.path[:1]:
    sys.path.insert(0, REPO)
