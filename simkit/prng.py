"""Seed derivation: one integer decides everything.

derive(seed, *labels) hashes the seed with labels into a new 63-bit integer;
stream(seed, name) gives an independent random.Random for a named purpose so
that an extra draw in one component never shifts another component.
"""
import hashlib
import random


def derive(seed, *labels):
    h = hashlib.sha256()
    h.update(str(int(seed)).encode())
    for lab in labels:
        h.update(b'\x00')
        h.update(str(lab).encode())
    return int.from_bytes(h.digest()[:8], 'big') >> 1


def stream(seed, name):
    return random.Random(derive(seed, name))


def digest(obj):
    """Short stable digest of a (nested) python value via repr()."""
    return hashlib.sha1(repr(obj).encode('utf-8', 'backslashreplace')).hexdigest()[:16]
