"""Generator of valid MOF compilation units (with include trees and search
path content) and of token-level damage, for the `mof` world (C09).

Everything is produced as concrete text at plan-generation time, so that a
plan is pure JSON and replays / shrinks without the generator."""
import re

QUAL_DECLS = [
    'Qualifier Key : boolean = false,\n    Scope(property, reference),\n'
    '    Flavor(DisableOverride, ToSubclass);',
    'Qualifier Description : string = null,\n    Scope(any),\n'
    '    Flavor(EnableOverride, ToSubclass, Translatable);',
    'Qualifier Association : boolean = false,\n    Scope(association),\n'
    '    Flavor(DisableOverride, ToSubclass);',
    'Qualifier EmbeddedInstance : string = null,\n'
    '    Scope(property, method, parameter);',
    'Qualifier EmbeddedObject : boolean = false,\n'
    '    Scope(property, method, parameter),\n'
    '    Flavor(DisableOverride, ToSubclass);',
    'Qualifier Override : string = null,\n'
    '    Scope(property, reference, method),\n'
    '    Flavor(EnableOverride, Restricted);',
    'Qualifier Values : string[],\n    Scope(property, method, parameter),\n'
    '    Flavor(EnableOverride, ToSubclass, Translatable);',
    'Qualifier MaxLen : uint32 = null,\n'
    '    Scope(property, method, parameter),\n'
    '    Flavor(EnableOverride, ToSubclass);',
    'Qualifier In : boolean = true,\n    Scope(parameter),\n'
    '    Flavor(DisableOverride, ToSubclass);',
    'Qualifier Out : boolean = false,\n    Scope(parameter),\n'
    '    Flavor(DisableOverride, ToSubclass);',
]

LONGTEXT = ['The quick brown fox jumps over the lazy dog and keeps on running',
            'C:/Program Files/Some Vendor/Some Product/bin/tool.exe --flag',
            'A description that is long enough to matter for the scanner 0123456789']

INIT = {
    'string': ['"abc"', '"two" " parts"', '"esc \\n \\x41 \\" q"', '""',
               '"\u00e4\u00f6\u20ac"', 'NULL'],
    'uint8': ['0', '255', '0x1F', '017', '101b'],
    'sint8': ['-128', '+7'],
    'uint16': ['65535', '0'],
    'sint16': ['-5', '+7'],
    'uint32': ['4294967295', '12'],
    'sint32': ['-2147483648'],
    'uint64': ['18446744073709551615', '1'],
    'sint64': ['-9223372036854775808'],
    'boolean': ['true', 'FALSE', 'True'],
    'real32': ['1.5', '-2.0e3', '.5'],
    'real64': ['1.0E-2', '3.25'],
    'char16': ["'a'", "'\\n'", '65'],
    'datetime': ['"20260925120000.000000+000"',
                 '"00000001000000.000000:000"'],
}
TYPES = sorted(INIT)


class Gen:
    """Generates units against a symbolic world (what has been defined)."""

    def __init__(self, r, prefix='TST'):
        self.r = r
        self.prefix = prefix
        self.n = 0
        self.classes = {}     # name -> {'super', 'props': [(n, t, arr)], ..}
        self.aliases = 0

    def uid(self):
        self.n += 1
        return self.n

    def longstr(self):
        r = self.r
        return '"%s %d"' % (r.choice(LONGTEXT), r.randrange(100))

    def prop(self, name, t, array=False, init=True, quals=()):
        r = self.r
        q = list(quals)
        if r.random() < 0.3:
            q.append('Description(%s)' % self.longstr())
        if t == 'string' and r.random() < 0.15:
            q.append('MaxLen(%d)' % r.choice([8, 64, 1024]))
        if r.random() < 0.1:
            q.append('Values{"a", "b"}')
        s = ''
        if q:
            s += '      [%s]\n' % (',\n       '.join(q))
        decl = '   %s %s' % (t, name)
        if array:
            decl += r.choice(['[]', '[]', '[4]'])
            if init and r.random() < 0.5:
                vals = [v for v in (r.choice(INIT[t]) for _ in range(
                    r.randint(0, 3))) if v != 'NULL']
                decl += ' = {%s}' % ', '.join(vals)
        elif init and r.random() < 0.5:
            decl += ' = %s' % r.choice(INIT[t])
        return s + decl + ';'

    def klass(self, name=None, sup=None, assoc_of=None, emb=None,
              nprops=None):
        """A class production; returns (name, text)."""
        r = self.r
        name = name or '%s_C%d' % (self.prefix, self.uid())
        feats = []
        props = []
        cq = []
        if r.random() < 0.5:
            cq.append('Description(%s)' % self.longstr())
        if assoc_of:
            cq.insert(0, 'Association')
            a, b = assoc_of
            feats.append('      [Key]\n   %s REF Left;' % a)
            feats.append('      [Key]\n   %s REF Right;' % b)
            if r.random() < 0.2:
                feats.append('   %s REF Opt = NULL;' % a)
                props.append(('Opt', 'ref:' + a, False))
            props += [('Left', 'ref:' + a, False), ('Right', 'ref:' + b,
                                                    False)]
        elif not sup:
            feats.append(self.prop('Id', 'string', init=False,
                                   quals=['Key']))
            props.append(('Id', 'string', False))
        for _ in range(r.randint(0, 4) if nprops is None else nprops):
            t = r.choice(TYPES)
            arr = r.random() < 0.25
            pn = 'P%d' % self.uid()
            feats.append(self.prop(pn, t, arr))
            props.append((pn, t, arr))
        if emb:
            kind = r.choice(['EmbeddedInstance("%s")' % emb,
                             'EmbeddedObject'])
            feats.append('      [%s]\n   string Emb;' % kind)
            props.append(('Emb', 'emb:' + emb, False))
        if r.random() < 0.3:
            params = []
            for j in range(r.randint(0, 2)):
                params.append('[%s] %s a%d%s' % (
                    r.choice(['In', 'Out', 'In, Out', 'In(false), Out']),
                    r.choice(TYPES), j, r.choice(['', '', '[]'])))
            feats.append('   %s M%d(%s);' % (
                r.choice(['uint32', 'string', 'boolean']), self.uid(),
                ', '.join(params)))
        head = ''
        if r.random() < 0.3:
            head = r.choice(['// a comment\n', '/* one line */\n',
                             '/* a comment\n   over\n   three lines */\n',
                             '/*\n\n*/ '])
        if cq:
            head += '   [%s]\n' % ',\n    '.join(cq)
        head += 'class %s' % name
        if sup:
            head += ' : %s' % sup
        text = head + ' {\n' + '\n'.join(feats) + '\n};'
        allp = list(self.classes[sup]['props']) if sup in self.classes \
            else []
        self.classes[name] = {'super': sup, 'props': allp + props}
        return name, text

    def value(self, t, arr):
        r = self.r
        if arr:
            vals = [v for v in (r.choice(INIT[t]) for _ in range(
                r.randint(0, 3))) if v != 'NULL']
            return '{%s}' % ', '.join(vals)
        return r.choice(INIT[t])

    def instance(self, cname, key=None, alias=None, refs=None, emb=None):
        """An instance production of a known class."""
        r = self.r
        c = self.classes[cname]
        lines = []
        for pn, t, arr in c['props']:
            if t.startswith('ref:'):
                if pn in (refs or {}):
                    lines.append('   %s = %s;' % (pn, refs[pn]))
            elif t.startswith('emb:'):
                if emb is not None:
                    lines.append('   %s = %s;' % (pn, emb))
            elif pn == 'Id':
                lines.append('   Id = "%s";' % key)
            elif r.random() < 0.6:
                lines.append('   %s = %s;' % (pn, self.value(t, arr)))
        head = 'instance of %s' % cname
        if alias:
            head += ' as %s' % alias
        return head + ' {\n' + '\n'.join(lines) + '\n};'

    def new_alias(self):
        self.aliases += 1
        return '$%s_a%d' % (self.prefix.lower(), self.aliases)


def mofstr(s):
    """A MOF string literal (possibly in several parts) for text s."""
    esc = s.replace('\\', '\\\\').replace('"', '\\"').replace('\n', '\\n')
    return '"%s"' % esc


# ---------------------------------------------------------------- damage
TOK = re.compile(r'''(\s+)|(//[^\n]*)|(/\*.*?\*/)|("(?:[^"\\\n]|\\.)*")|'''
                 r"""('(?:[^'\\\n]|\\.)*')|([A-Za-z_$][A-Za-z0-9_]*)|"""
                 r'''([+-]?[0-9][0-9a-zA-Z.+-]*)|(.)''', re.S)


def tokenize(text):
    """[(text, kind)] with kind in ws, comment, string, char, ident, num,
    punct; ''.join of the texts is the input."""
    out = []
    for m in TOK.finditer(text):
        kinds = ['ws', 'comment', 'comment', 'string', 'char', 'ident',
                 'num', 'punct']
        for i, k in enumerate(kinds, 1):
            if m.group(i) is not None:
                out.append((m.group(i), k))
                break
    return out


DAMAGE_KINDS = ['drop', 'dup', 'swap', 'unterminated_string',
                'unterminated_comment', 'bad_escape', 'huge_number',
                'bad_pragma', 'undefined_alias', 'type_mismatch',
                'random_text', 'odd_char', 'truncate', 'unknown_name',
                'bad_decl']

# declarations that are grammatically fine and semantically wrong
BAD_DECLS = [
    'Qualifier DQ%d : uint8 = "abc", Scope(any);',
    'Qualifier DQ%d : uint8 = 300, Scope(any);',
    'Qualifier DQ%d : sint16 = -40000, Scope(property);',
    'Qualifier DQ%d : datetime = "garbage", Scope(any);',
    'Qualifier DQ%d : string[] = "a", Scope(any);',
    'Qualifier DQ%d : string = {"a"}, Scope(any);',
    'Qualifier DQ%d : real32 = "x", Scope(any);',
    'Qualifier DQ%d : boolean = "yes", Scope(any);',
    'Qualifier DQ%d : char16 = "toolong", Scope(any);',
    'class DC%d { [EmbeddedInstance] string p; NoSuchRefCls REF r; };',
    'class DC%d { [EmbeddedInstance(null)] string p; };',
    'class DC%d { [Key] string k; [MaxLen("x")] string p; };',
]

BAD_PRAGMAS = ['#pragma namespace ("1:")', '#pragma namespace ("")',
               '#pragma namespace ("http://host/root/x")',
               '#pragma namespace ("//host/root/x")',
               '#pragma include (', '#pragma include ("")',
               '#pragma include ("no/such/file.mof")',
               '#pragma include ("..")', '#pragma ("x")',
               '#pragma unknown ("x")', '#pragma locale (en_US)',
               '#pragma namespace (root/x)', '# pragma', '#pragma include '
               '("a" "b")', '#pragma namespace ("root/x" , "y")']

BAD_VALUES = ['"text"', "'x'", '300', '-1', '99999999999999999999999999',
              '1e999', '0xGG', '09', '12b', 'true', 'NULL', '{1, 2}', '{}',
              '"20261301000000.000000+000"', '"not a date"', '1.5.5',
              '$nosuch', '"\\x"', '"\\q"', "''", "'ab'", '0x', '-', '+',
              '18446744073709551616', '-9223372036854775809', '1e', '.',
              'xyz', '$nosuchalias', '"not a path"', '"A.k=1"']


def damage(r, text, kind=None):
    """Returns (damaged text, description).  Token-level; whitespace and
    everything outside the touched tokens stays as it is."""
    toks = tokenize(text)
    idx = [i for i, (t, k) in enumerate(toks) if k not in ('ws', 'comment')]
    kind = kind or r.choice(DAMAGE_KINDS)
    if not idx:
        return text + ' ;;', 'append'

    def join(ts):
        return ''.join(t for t, _ in ts)

    def pick(kinds):
        c = [i for i in idx if toks[i][1] in kinds]
        return r.choice(c) if c else None

    if kind == 'embedded_break':
        c = [i for i in idx if toks[i][1] == 'string' and
             'instance of' in toks[i][0]]
        if c:
            i = r.choice(c)
            t = toks[i][0]
            how = r.choice(['eq', 'brace', 'class', 'semi'])
            if how == 'eq':
                t = t.replace(' = ', ' ', 1)
            elif how == 'brace':
                t = t.replace('{', '', 1)
            elif how == 'class':
                t = t.replace('instance of ', 'instance of NoSuch', 1)
            else:
                t = t.replace(';', '', 1)
            toks[i] = (t, 'string')
            return join(toks), 'embedded value broken (%s)' % how
        kind = 'drop'
    if kind == 'drop':
        i = r.choice(idx)
        d = 'drop token %r' % toks[i][0][:20]
        del toks[i]
        return join(toks), d
    if kind == 'dup':
        i = r.choice(idx)
        toks.insert(i, toks[i])
        return join(toks), 'duplicate token %r' % toks[i][0][:20]
    if kind == 'swap' and len(idx) > 1:
        j = r.randrange(len(idx) - 1)
        a, b = idx[j], idx[j + 1]
        toks[a], toks[b] = toks[b], toks[a]
        return join(toks), 'swap tokens %r %r' % (toks[a][0][:20],
                                                  toks[b][0][:20])
    if kind == 'unterminated_string':
        # prefer long strings
        c = sorted((i for i in idx if toks[i][1] == 'string'),
                   key=lambda i: -len(toks[i][0]))
        if c:
            i = c[0] if r.random() < 0.6 else r.choice(c)
            toks[i] = (toks[i][0][:-1], 'string')
            return join(toks), 'unterminated string'
        kind = 'bad_escape'
    if kind == 'bad_escape':
        c = sorted((i for i in idx if toks[i][1] == 'string'),
                   key=lambda i: -len(toks[i][0]))
        if c:
            i = c[0] if r.random() < 0.6 else r.choice(c)
            s = toks[i][0]
            esc = r.choice(['\\q', '\\x', '\\', '\\xZZ', '\\u0041', '\\0'])
            pos = r.choice(['end', 'end', 'mid'])
            if pos == 'end' or len(s) < 4:
                s = s[:-1] + esc + '"'
            else:
                k = r.randrange(1, len(s) - 1)
                s = s[:k] + esc + s[k:]
            toks[i] = (s, 'string')
            return join(toks), 'bad escape %r at %s' % (esc, pos)
        kind = 'odd_char'
    if kind == 'unterminated_comment':
        i = r.choice(idx)
        toks.insert(i, (r.choice(['/* never closed ', '/*', '*/', '/ *']),
                        'punct'))
        return join(toks), 'unterminated comment'
    if kind == 'huge_number':
        i = pick(('num',))
        if i is not None:
            toks[i] = (r.choice(['99999999999999999999999999', '1e999',
                                 '-99999999999999999999', '0x' + 'F' * 40,
                                 '1' * 70 + 'b', '0' + '7' * 50,
                                 '9' * 5000, '0x' + 'A' * 6000,
                                 '300', '-129', '65536']), 'num')
            return join(toks), 'huge number %s' % toks[i][0][:12]
        kind = 'type_mismatch'
    if kind == 'bad_decl':
        d = r.choice(BAD_DECLS) % r.randrange(1000)
        if r.random() < 0.5:
            return d + '\n' + text, 'bad declaration %r' % d[:40]
        return text.rstrip('\n') + '\n' + d + '\n', \
            'bad declaration %r' % d[:40]
    if kind == 'bad_pragma':
        i = r.choice(idx)
        # at a production boundary if possible
        b = [j for j in idx if toks[j][0] == ';']
        pos = (r.choice(b) + 1) if b and r.random() < 0.8 else i
        p = r.choice(BAD_PRAGMAS)
        toks.insert(pos, ('\n' + p + '\n', 'punct'))
        return join(toks), 'bad pragma %r' % p
    if kind == 'undefined_alias':
        c = [i for i in idx if toks[i][1] == 'ident' and
             toks[i][0].startswith('$')]
        if c:
            i = r.choice(c)
            toks[i] = ('$nosuchalias', 'ident')
            return join(toks), 'undefined alias'
        kind = 'type_mismatch'
    if kind == 'type_mismatch':
        # the value after an '='
        c = [j for j in range(len(idx) - 1) if toks[idx[j]][0] == '=']
        if c:
            j = r.choice(c)
            i = idx[j + 1]
            v = r.choice(BAD_VALUES)
            if toks[i][0] == '{':
                # replace up to the closing brace
                k = i
                while k < len(toks) and toks[k][0] != '}':
                    k += 1
                del toks[i + 1:k + 1]
            toks[i] = (v, 'num')
            return join(toks), 'value replaced by %s' % v
        kind = 'drop'
        i = r.choice(idx)
        del toks[i]
        return join(toks), 'drop token'
    if kind == 'random_text':
        alphabet = 'abcXYZ019 \n\t{}[]();:=,#$"\'\\/*.+-_\u00e4\u20ac\x00'
        n = r.randint(1, 60)
        s = ''.join(r.choice(alphabet) for _ in range(n))
        i = r.choice(idx)
        toks.insert(i, (s, 'punct'))
        return join(toks), 'random text inserted'
    if kind == 'odd_char':
        i = r.choice(idx)
        ch = r.choice(['\n\r\r\r@', '\r\r`', '\x00', '\x01', '\u20ac', '\ufffe', '\x7f', '`', '@',
                       '\\', '"', "'", '\r', '\x0c', '\u2028',
                       '\U0001F600'])
        t = toks[i][0]
        k = r.randrange(len(t) + 1)
        toks[i] = (t[:k] + ch + t[k:], toks[i][1])
        return join(toks), 'character %r inserted' % ch
    if kind == 'truncate':
        i = r.choice(idx)
        return join(toks[:i]), 'truncated'
    if kind == 'unknown_name':
        c = [i for i in idx if toks[i][1] == 'ident' and
             not toks[i][0].startswith('$')]
        if c:
            i = r.choice(c)
            toks[i] = ('NoSuch_%d' % r.randrange(100), 'ident')
            return join(toks), 'identifier replaced'
    i = r.choice(idx)
    d = 'drop token %r' % toks[i][0][:20]
    del toks[i]
    return join(toks), d
