"""A mock WBEM server with an Interop namespace, namespace provider and
subscription providers, built with pywbem's own public recipe from the only
committed schema artefact (tests/schema/cim_schema_2.49.0Final-MOFs.zip).
Built once per process, afterwards restored from a pickle snapshot."""
import os
import atexit
import shutil
import pickle
import tempfile
import warnings

import pywbem
import pywbem_mock
from pywbem_mock import DMTFCIMSchema

from . import REPO

INTEROP = 'interop'
_STATE = {}


def _workdir():
    if 'dir' not in _STATE:
        base = os.environ.get('VERIF_WORK')
        d = tempfile.mkdtemp(prefix='verif-interop-', dir=base)
        atexit.register(shutil.rmtree, d, True)
        _STATE['dir'] = d
    return _STATE['dir']


def _schema():
    if 'schema' not in _STATE:
        d = os.path.join(_workdir(), 'schema')
        os.makedirs(d, exist_ok=True)
        src = os.path.join(REPO, 'tests', 'schema',
                           'cim_schema_2.49.0Final-MOFs.zip')
        shutil.copy(src, d)
        _STATE['schema'] = DMTFCIMSchema((2, 49, 0), d, verbose=False)
    return _STATE['schema']


def _install_providers(conn):
    schema = _schema()
    conn.install_namespace_provider(
        INTEROP, schema_pragma_file=schema.schema_pragma_file)
    conn.install_subscription_providers(
        INTEROP, schema_pragma_file=schema.schema_pragma_file)


def build(url='http://FakedUrl:5988'):
    with warnings.catch_warnings():
        warnings.simplefilter('ignore')
        conn = pywbem_mock.FakedWBEMConnection(default_namespace=INTEROP,
                                               url=url)
        schema = _schema()
        conn.compile_schema_classes(
            ['CIM_Namespace', 'CIM_ObjectManager', 'CIM_ComputerSystem'],
            schema.schema_pragma_file, namespace=INTEROP, verbose=False)
        _install_providers(conn)
        from pywbem_mock.config import OBJECTMANAGERCREATIONCLASSNAME, \
            SYSTEMCREATIONCLASSNAME, OBJECTMANAGERNAME, SYSTEMNAME
        om = pywbem.CIMInstance(
            'CIM_ObjectManager',
            properties={'SystemCreationClassName': SYSTEMCREATIONCLASSNAME,
                        'CreationClassName': OBJECTMANAGERCREATIONCLASSNAME,
                        'SystemName': SYSTEMNAME, 'Name': OBJECTMANAGERNAME,
                        'ElementName': 'Mock', 'Description': 'sim'})
        om.path = pywbem.CIMInstanceName(
            'CIM_ObjectManager', keybindings={
                'SystemCreationClassName': SYSTEMCREATIONCLASSNAME,
                'CreationClassName': OBJECTMANAGERCREATIONCLASSNAME,
                'SystemName': SYSTEMNAME, 'Name': OBJECTMANAGERNAME},
            namespace=INTEROP)
        conn.add_cimobjects(om, namespace=INTEROP)
    return conn


def fresh(url='http://FakedUrl:5988'):
    """A new interop mock server (own repository)."""
    blob = _STATE.get('blob')
    if blob is None:
        c = build(url)
        blob = pickle.dumps(c.cimrepository._repository)  # noqa
        _STATE['blob'] = blob
    with warnings.catch_warnings():
        warnings.simplefilter('ignore')
        conn = pywbem_mock.FakedWBEMConnection(default_namespace=INTEROP,
                                               url=url)
        conn.cimrepository._repository = pickle.loads(blob)  # noqa
        _install_providers(conn)
    return conn
