"""The `listener` world: the real pywbem/_listener.py running on private
copies of the stdlib socketserver and http.server, all of them loaded with
threading / queue / socket / selectors / time replaced by simkit shims.

run_world(plan) executes one plan (pure JSON data) and returns a history that
the C16 / C17 oracles evaluate.
"""
import sys
import logging
import importlib.util
import threading as _threading
import queue as _queue
import socket as _socket
import selectors as _selectors
import time as _time
import socketserver as _rss
import http.server as _rhs

from . import sched as _s, shims, net

_LOADED = None


def load_under_shims(name, path, mods, package=None):
    saved = {k: sys.modules.get(k) for k in mods}
    sys.modules.update(mods)
    try:
        spec = importlib.util.spec_from_file_location(name, path)
        mod = importlib.util.module_from_spec(spec)
        if package:
            mod.__package__ = package
        spec.loader.exec_module(mod)
    finally:
        for k, v in saved.items():
            if v is None:
                sys.modules.pop(k, None)
            else:
                sys.modules[k] = v
    return mod


class World:
    pass


def load():
    """Load (once per process) the private module copies."""
    global _LOADED  # pylint: disable=global-statement
    if _LOADED is not None:
        return _LOADED
    import pywbem
    import pywbem._listener as real_listener
    sh_threading = shims.shim_module(
        _threading, Thread=shims.SimThread, Event=shims.SimEvent,
        Lock=shims.SimLock, RLock=shims.SimRLock)
    sh_queue = shims.shim_module(_queue, Queue=shims.SimQueue)
    sh_socket = shims.shim_module(
        _socket, socket=net.FakeListenSocket, getaddrinfo=net.getaddrinfo,
        getfqdn=lambda h='': 'simhost')
    sh_selectors = shims.shim_module(
        _selectors, PollSelector=net.SimSelector,
        SelectSelector=net.SimSelector, DefaultSelector=net.SimSelector,
        EpollSelector=net.SimSelector)
    sh_time = shims.shim_module(
        _time, sleep=shims.v_sleep, monotonic=shims.v_monotonic,
        time=shims.v_time)
    ss = load_under_shims(
        'socketserver__sim', _rss.__file__,
        {'threading': sh_threading, 'socket': sh_socket,
         'selectors': sh_selectors, 'time': sh_time})
    hs = load_under_shims(
        'http_server__sim', _rhs.__file__,
        {'socketserver': ss, 'socket': sh_socket, 'time': sh_time},
        package='http')
    sh_http = None
    import ssl as _ssl

    class SimSSLError(OSError):
        library = None

    class SimSSLContext:
        """TLS stub: certificates are names ('sim:good' loads, 'sim:badpem'
        is a bad PEM file, anything else does not exist); the wrapped
        socket is the plain simulated socket (no handshake, no
        encryption)."""

        def __init__(self, protocol=None):
            self.options = 0

        def load_cert_chain(self, certfile=None, keyfile=None,
                            password=None):
            if certfile == 'sim:good':
                return
            if certfile == 'sim:badpem':
                e = SimSSLError('[SSL] PEM lib (_ssl.c:0)')
                e.library = 'SSL'
                raise e
            raise FileNotFoundError(2, 'No such file or directory')

        def wrap_socket(self, sock, server_side=False, **_kw):
            return sock
    sh_ssl = shims.shim_module(_ssl, SSLContext=SimSSLContext,
                               SSLError=SimSSLError)
    L = load_under_shims(
        'pywbem._listener__sim', real_listener.__file__,
        {'threading': sh_threading, 'queue': sh_queue, 'socket': sh_socket,
         'socketserver': ss, 'http.server': hs, 'time': sh_time,
         'ssl': sh_ssl},
        package='pywbem')

    # record exceptions that escape a request handler (stdlib prints them)
    def handle_error(self, request, client_address):
        et, ev, _tb = sys.exc_info()
        sch = _s.CUR
        rec = getattr(sch, 'handler_errors', None)
        if rec is not None:
            cid = getattr(getattr(request, 'conn', None), 'cid', None)
            rec.append((cid, et.__name__, str(ev)[:200]))
            sch.note('handle_error:%s' % et.__name__)
    ss.BaseServer.handle_error = handle_error

    w = World()
    w.L, w.ss, w.hs, w.pywbem = L, ss, hs, pywbem
    w.listener_file = real_listener.__file__
    _LOADED = w
    return w


class _Capture(logging.Handler):
    def __init__(self):
        super().__init__(logging.DEBUG)
        self.records = None

    def emit(self, record):
        if self.records is not None:
            try:
                msg = record.getMessage()
            except Exception as e:  # pylint: disable=broad-except
                msg = 'LOGFORMAT-ERROR %r' % (e,)
            self.records.append((record.levelname, msg))

    def createLock(self):
        self.lock = None


_CAP = _Capture()


def _setup_logging():
    lg = logging.getLogger('pywbem.listener')
    if _CAP not in lg.handlers:
        lg.addHandler(_CAP)
        lg.propagate = False
        lg.setLevel(logging.DEBUG)


# ------------------------------------------------------------ request bytes
_REQ_CACHE = {}


def indication_request(ind_id, extra=None):
    """Bytes of a valid ExportIndication HTTP request produced by the real
    WBEMConnection.ExportIndication and captured at the transport seam."""
    key = (ind_id, repr(extra))
    if key in _REQ_CACHE:
        return _REQ_CACHE[key]
    import requests
    import pywbem
    props = {'IndicationIdentifier': ind_id}
    if extra:
        props.update(extra)
    inst = pywbem.CIMInstance('CIM_AlertIndication', properties=props)
    conn = pywbem.WBEMConnection('http://simhost:5000')
    captured = {}

    class A(requests.adapters.BaseAdapter):
        def send(self, request, **kw):
            captured['req'] = request
            raise requests.exceptions.ConnectionError('captured')

        def close(self):
            pass
    conn.session.mount('http://', A())
    try:
        conn.ExportIndication(inst)
    except pywbem.ConnectionError:
        pass
    r = captured['req']
    head = 'POST / HTTP/1.1\r\n' + ''.join(
        '%s: %s\r\n' % (k, v) for k, v in sorted(r.headers.items())) + '\r\n'
    body = r.body if isinstance(r.body, bytes) else r.body.encode('utf-8')
    data = head.encode('latin-1') + body
    _REQ_CACHE[key] = data
    return data


def parse_response(raw):
    """Very small HTTP response parser.  Returns dict or None if raw is not
    a syntactically valid single HTTP response."""
    out = {'raw_len': len(raw), 'problems': []}
    if not raw:
        return None
    pos = 0
    # interim 100 Continue responses are allowed before the final one
    while True:
        idx = raw.find(b'\r\n\r\n', pos)
        if idx < 0:
            out['problems'].append('no-header-end')
            return out
        head = raw[pos:idx]
        lines = head.split(b'\r\n')
        sl = lines[0].split(b' ', 2)
        if len(sl) < 2 or not sl[0].startswith(b'HTTP/') or \
                not sl[1].isdigit():
            out['problems'].append('bad-status-line')
            return out
        status = int(sl[1])
        if status == 100:
            pos = idx + 4
            continue
        break
    out['status'] = status
    out['version'] = sl[0].decode('latin-1')
    headers = []
    for ln in lines[1:]:
        if b'\n' in ln or b'\r' in ln or ln[:1] in (b' ', b'\t'):
            # bare CR / LF, or a folded continuation line
            out['problems'].append('bare-crlf-in-header')
            continue
        if b':' not in ln:
            out['problems'].append('header-without-colon')
            continue
        k, v = ln.split(b':', 1)
        if not k or k != k.strip() or b' ' in k:
            out['problems'].append('bad-header-name')
        headers.append((k.decode('latin-1').lower(),
                        v.strip().decode('latin-1')))
    out['headers'] = headers
    body = raw[idx + 4:]
    out['body'] = body
    cl = [v for k, v in headers if k == 'content-length']
    if len(cl) > 1:
        out['problems'].append('duplicate-content-length')
    if cl:
        if not cl[0].isdigit() or int(cl[0]) != len(body):
            out['problems'].append('content-length-mismatch')
    elif body:
        out['problems'].append('body-without-content-length')
    return out


# ---------------------------------------------------------------- execution
def run_world(plan, keep_log=False):
    """Execute one listener-world plan.

    plan = {
      'sched': {'seed', 'policy', 'params', 'fine', 'forced'(opt)},
      'listener': {'http_port', 'https_port'(opt), 'queue', 'cert'(opt)},
      'callbacks': [{'dur': float, 'raise': bool}],
      'senders': [{'port': int, 'msgs': [msg,...]}],
         msg = {'ind': id} | {'raw': latin1-str}; optional 'pieces': int,
               'vanish_after': int, 'half_close': bool, 'gap': float
      'main': [op,...]
         op = ['start'] | ['stop'] | ['occupy', port] | ['free', port] |
              ['senders', [idx,...]] | ['sleep', t] | ['wait_resp', n] |
              ['join_senders'] | ['yield', n] | ['wait_idle']
    }
    """
    w = load()
    _setup_logging()
    L = w.L
    sp = plan['sched']
    fine = {w.listener_file} if sp.get('fine') else None
    sch = _s.Scheduler(sp['seed'], sp.get('policy', 'uniform'),
                       sp.get('params'), forced=sp.get('forced'),
                       max_steps=sp.get('max_steps', 20000),
                       fine_files=fine, keep_log=keep_log)
    sch.handler_errors = []
    sch.queues = []
    nw = net.new_net()
    H = {'events': [], 'responses': [], 'deliveries': [], 'mainops': [],
         'thread_excs': []}
    logrecs = []
    _CAP.records = logrecs

    def ev(kind, **kw):
        kw['k'] = kind
        kw['seq'] = sch.note('E:' + kind)
        H['events'].append(kw)
        return kw['seq']

    cbspecs = plan.get('callbacks', [{'dur': 0.0, 'raise': False}])
    inflight = [0]
    probes = {}
    H['probes'] = probes

    def on_qempty(is_empty):
        if is_empty and inflight[0] > 0 and sch.cur.tid == 0:
            probes['stop_saw_empty_while_callback_inflight'] = \
                probes.get('stop_saw_empty_while_callback_inflight', 0) + 1
    sch.on_qempty = on_qempty

    def make_cb(j, spec):
        def cb(indication, host):
            iid = indication.properties['IndicationIdentifier'].value \
                if 'IndicationIdentifier' in indication.properties else '?'
            inflight[0] += 1
            try:
                sch.yield_('cb.enter')
                s0 = ev('deliver', cb=j, ind=iid)
                if spec.get('dur'):
                    sch.sleep(spec['dur'])
                else:
                    sch.yield_('cb.body')
                ev('deliver_end', cb=j, ind=iid, start=s0)
            finally:
                inflight[0] -= 1
            if spec.get('raise'):
                raise RuntimeError('callback %d fails' % j)
        cb.__name__ = 'cb%d' % j
        return cb

    lp = plan['listener']
    externals = {}
    senders_done = {}
    resp_count = [0]

    def sender_fn(si, spec):
        def f():
            port = spec.get('port', lp.get('http_port'))
            for mi, m in enumerate(spec['msgs']):
                if m.get('gap'):
                    sch.sleep(m['gap'])
                if 'ind' in m:
                    data = indication_request(m['ind'])
                else:
                    data = m['raw'].encode('latin-1')
                rec = {'sender': si, 'msg': mi, 'ind': m.get('ind')}
                rec['sent_seq'] = ev('send', sender=si, msg=mi)
                try:
                    c = nw.connect(port)
                except ConnectionRefusedError:
                    rec['how'] = 'refused'
                    rec['seq'] = ev('resp', sender=si, msg=mi, how='refused')
                    H['responses'].append(rec)
                    resp_count[0] += 1
                    continue
                rec['cid'] = c.cid
                va = m.get('vanish_after')
                if va is not None:
                    data = data[:va]
                npieces = max(1, int(m.get('pieces', 1)))
                step = max(1, -(-len(data) // npieces))
                rec['t_sent'] = sch.now
                try:
                    st = m.get('stall')
                    if st:
                        # a slow / stalled sender: part of the request, a
                        # long silence, then the rest
                        cut = min(len(data), max(0, st['after']))
                        if cut:
                            c.send(data[:cut])
                        ev('stall', sender=si, msg=mi)
                        sch.sleep(st['secs'])
                        data = data[cut:]
                    for off in range(0, len(data), step):
                        c.send(data[off:off + step])
                    if va is not None:
                        c.vanish()
                        rec['how'] = 'vanished'
                        rec['seq'] = ev('resp', sender=si, msg=mi,
                                        how='vanished')
                        H['responses'].append(rec)
                        resp_count[0] += 1
                        continue
                    if m.get('half_close'):
                        c.close_write()
                    raw, how = c.recv_all(m.get('read_timeout'),
                                          eager=spec.get('eager', False))
                except ConnectionResetError:
                    if c.accepted and c.server_closed:
                        # the server answered and closed before the sender
                        # had written everything
                        raw, how = bytes(c.s2c), 'eof'
                        rec['early_close'] = True
                    else:
                        raw, how = bytes(c.s2c), 'reset'
                rec['how'] = how
                rec['raw'] = raw
                rec['t'] = sch.now
                rec['accepted'] = c.accepted
                rec['seq'] = ev('resp', sender=si, msg=mi, how=how,
                                n=len(raw))
                H['responses'].append(rec)
                resp_count[0] += 1
            senders_done[si] = True
        return f

    sender_tasks = {}
    state = {'listener': None}

    def main():
        kw = {}
        if lp.get('https_port'):
            kw.update(https_port=lp['https_port'],
                      certfile=lp.get('cert', '/nonexistent/cert.pem'),
                      keyfile=lp.get('cert', '/nonexistent/key.pem'))
        lst = L.WBEMListener('simhost', http_port=lp.get('http_port'),
                             max_ind_queue_size=lp.get('queue', 0), **kw)
        state['listener'] = lst
        for j, spec in enumerate(cbspecs):
            if not spec.get('late'):
                lst.add_callback(make_cb(j, spec))
        for op in plan['main']:
            name = op[0]
            rec = {'op': op, 'seq0': ev('op', op=name)}
            try:
                if name == 'start':
                    lst.start()
                elif name == 'stop':
                    lst.stop()
                elif name == 'add_callback':
                    lst.add_callback(make_cb(op[1], cbspecs[op[1]]))
                elif name == 'occupy':
                    s = net.FakeListenSocket()
                    try:
                        s.bind(('0.0.0.0', op[1]))
                        externals[op[1]] = s
                    except OSError:
                        rec['note'] = 'busy'
                elif name == 'free':
                    s = externals.pop(op[1], None)
                    if s is not None:
                        s.close()
                elif name == 'senders':
                    for si in op[1]:
                        if si in sender_tasks:
                            continue
                        sender_tasks[si] = sch.spawn(
                            'snd%d' % si,
                            sender_fn(si, plan['senders'][si]))
                    sch.yield_('spawned')
                elif name == 'sleep':
                    sch.sleep(op[1])
                elif name == 'yield':
                    for _ in range(op[1]):
                        sch.yield_('main.yield')
                elif name == 'wait_resp':
                    sch.block(lambda n=op[1]: resp_count[0] >= n or all(
                        t.done for t in sender_tasks.values()), None,
                        'wait_resp')
                elif name == 'wait_idle':
                    # no request is on its way any more (also not the one
                    # of a sender that vanished without reading the
                    # response), and every indication that was put into a
                    # queue has been taken out and completely processed
                    # (task_done)
                    sch.block(lambda: nw.quiet() and all(
                        not q.q and q.unfinished_tasks == 0
                        for q in sch.queues), None, 'wait_idle')
                elif name == 'join_senders':
                    sch.block(lambda: all(
                        t.done for t in sender_tasks.values()), None,
                        'join_senders')
                rec['result'] = 'ok'
            except _s.SimAbort:
                raise
            except Exception as e:  # pylint: disable=broad-except
                rec['result'] = 'exc'
                rec['exc_type'] = type(e).__name__
                rec['exc'] = '%s: %s' % (type(e).__name__, str(e)[:200])
            rec['seq1'] = ev('op_end', op=name, result=rec['result'])
            # snapshot of the world right after the operation returned
            rec['owned_alive'] = sorted(
                t.name for t in sch.tasks
                if t.listener_owned and not t.done)
            rec['ports'] = sorted(
                p for p, s in nw.bound.items()
                if s not in externals.values())
            rec['now'] = sch.now
            H['mainops'].append(rec)

    t = sch.run(main)
    _CAP.records = None
    H['failure'] = sch.failure
    H['main_exc'] = None if t.exc is None else \
        '%s: %s' % (type(t.exc).__name__, t.exc)
    H['thread_excs'] = [(x.name, type(x.exc).__name__, str(x.exc)[:200])
                        for x in sch.tasks[1:] if x.exc is not None]
    H['handler_errors'] = list(sch.handler_errors)
    H['steps'] = sch.steps
    H['switches'] = sch.switches
    H['now'] = sch.now
    H['choices'] = sch.choices
    H['fingerprint'] = sch.fingerprint()
    H['log'] = sch.log if keep_log else None
    H['logrecs'] = logrecs
    H['timer_fires'] = sch.timer_fires
    H['timer_preempts'] = sch.timer_preempts
    H['ntasks'] = len(sch.tasks)
    return H
