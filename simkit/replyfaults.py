"""Fault layer for the wire world: takes the plausible HTTP reply the
simulated server produced and damages it according to a fault spec (plain
data).  Returns the list of stream actions for simkit.wire (bytes, 'TIMEOUT',
'RESET', end of list = EOF)."""
import random

from lxml import etree

from . import wire

TRANSPORT = ['reset_before_status', 'reset_mid_headers', 'reset_mid_body',
             'eof_early', 'eof_empty', 'stall', 'stall_mid_body', 'pieces',
             'delay']
HTTP = ['status', 'ctype', 'clen', 'hdr_garbage', 'statusline', 'chunked',
        'encoding', 'resptime']
BODY = ['corrupt_bytes', 'struct', 'cim_error', 'replace_body']
ALL_KINDS = TRANSPORT + HTTP + BODY

CIM_TYPES = ['boolean', 'string', 'char16', 'uint8', 'sint8', 'uint16',
             'sint16', 'uint32', 'sint32', 'uint64', 'sint64', 'real32',
             'real64', 'datetime', 'reference']
ODD_TEXT = ['INF', '-INF', 'NaN', '1e400', '-1e400', 'x', '', ' ', '0x',
            '0xZZ', '99999999999999999999999999', '-1', '1.5', 'TRUE',
            'maybe', '20260925', '99999999999999.999999+999', '0x1F',
            '\u4e2d', '1 2', '+5', '١٢٣', '1_000', 'null', 'None',
            '00000000000000.000000:000', 'ab', '\x7f']
ODD_ATTR = ['', 'x', 'true', 'TRUE', '1', '-1', '0', 'bogus', 'instance',
            'object', 'uint9', 'String', 'reference', '99999999999999999999',
            '1e3', ' ', 'numeric', 'boolean', 'INF', '\u4e2d']
INTERESTING_ATTRS = ['CODE', 'ARRAYSIZE', 'TYPE', 'PARAMTYPE', 'VALUETYPE',
                     'EmbeddedObject', 'EMBEDDEDOBJECT', 'PROPAGATED',
                     'OVERRIDABLE', 'TOSUBCLASS', 'TOINSTANCE',
                     'TRANSLATABLE', 'ISARRAY', 'NAME', 'CLASSNAME',
                     'REFERENCECLASS', 'CLASSORIGIN', 'SUPERCLASS',
                     'CIMVERSION', 'DTDVERSION', 'PROTOCOLVERSION', 'ID',
                     'DESCRIPTION']
ELEMS = ['VALUE', 'VALUE.ARRAY', 'VALUE.REFERENCE', 'VALUE.REFARRAY',
         'VALUE.NULL', 'VALUE.OBJECT', 'VALUE.NAMEDINSTANCE',
         'VALUE.OBJECTWITHPATH', 'VALUE.INSTANCEWITHPATH', 'INSTANCE',
         'INSTANCENAME', 'INSTANCEPATH', 'OBJECTPATH', 'CLASS', 'CLASSNAME',
         'CLASSPATH', 'LOCALCLASSPATH', 'LOCALINSTANCEPATH', 'KEYBINDING',
         'KEYVALUE', 'PROPERTY', 'PROPERTY.ARRAY', 'PROPERTY.REFERENCE',
         'QUALIFIER', 'QUALIFIER.DECLARATION', 'SCOPE', 'METHOD', 'PARAMETER',
         'PARAMETER.ARRAY', 'PARAMETER.REFERENCE', 'PARAMETER.REFARRAY',
         'IRETURNVALUE', 'RETURNVALUE', 'PARAMVALUE', 'ERROR', 'NAMESPACE',
         'NAMESPACEPATH', 'LOCALNAMESPACEPATH', 'HOST', 'IMETHODRESPONSE',
         'METHODRESPONSE', 'SIMPLERSP', 'MULTIRSP', 'SIMPLEREQ',
         'SIMPLEEXPRSP', 'EXPMETHODRESPONSE', 'MESSAGE', 'CIM',
         'DECLARATION', 'BOGUS']
SNIPPETS = [
    '<VALUE>x</VALUE>', '<VALUE.NULL/>', '<VALUE.ARRAY><VALUE>1</VALUE>'
    '<VALUE.NULL/></VALUE.ARRAY>',
    '<INSTANCE CLASSNAME="X"><PROPERTY NAME="p" TYPE="uint8"><VALUE>INF'
    '</VALUE></PROPERTY></INSTANCE>',
    '<INSTANCENAME CLASSNAME="X"><KEYBINDING NAME="k"><KEYVALUE '
    'VALUETYPE="numeric">x</KEYVALUE></KEYBINDING></INSTANCENAME>',
    '<INSTANCENAME CLASSNAME="X"><KEYVALUE VALUETYPE="boolean">maybe'
    '</KEYVALUE></INSTANCENAME>',
    '<INSTANCENAME CLASSNAME="X"><VALUE.REFERENCE><CLASSNAME NAME="Y"/>'
    '</VALUE.REFERENCE></INSTANCENAME>',
    '<CLASS NAME="X"><PROPERTY.ARRAY NAME="a" TYPE="string" ARRAYSIZE="x"/>'
    '</CLASS>', '<CLASSNAME NAME=""/>', '<ERROR CODE="x"/>',
    '<ERROR CODE="6" DESCRIPTION="d"><INSTANCE CLASSNAME="CIM_Error"/>'
    '</ERROR>',
    '<PARAMVALUE NAME="EndOfSequence" PARAMTYPE="boolean"><VALUE>maybe'
    '</VALUE></PARAMVALUE>',
    '<PARAMVALUE NAME="EnumerationContext"><VALUE.ARRAY/></PARAMVALUE>',
    '<PARAMVALUE NAME="o" PARAMTYPE="uint8"><VALUE>abc</VALUE></PARAMVALUE>',
    '<PARAMVALUE NAME="o" PARAMTYPE="datetime"><VALUE>2026</VALUE>'
    '</PARAMVALUE>',
    '<PARAMVALUE NAME="o" PARAMTYPE="reference"><VALUE>x</VALUE>'
    '</PARAMVALUE>',
    '<PARAMVALUE NAME="o" PARAMTYPE="bogus"><VALUE>1</VALUE></PARAMVALUE>',
    '<PARAMVALUE NAME="o"><VALUE>1</VALUE></PARAMVALUE>',
    '<PARAMVALUE NAME="o" PARAMTYPE="string" EmbeddedObject="instance">'
    '<VALUE>&lt;INSTANCE&gt;</VALUE></PARAMVALUE>',
    '<RETURNVALUE PARAMTYPE="uint32"><VALUE>x</VALUE></RETURNVALUE>',
    '<RETURNVALUE><VALUE>1</VALUE></RETURNVALUE>',
    '<RETURNVALUE PARAMTYPE="char16"><VALUE>ab</VALUE></RETURNVALUE>',
    '<RETURNVALUE PARAMTYPE="real32"><VALUE>1,5</VALUE></RETURNVALUE>',
    '<RETURNVALUE PARAMTYPE="string" EmbeddedObject="object"><VALUE>'
    '&lt;CLASS/&gt;</VALUE></RETURNVALUE>',
    '<QUALIFIER.DECLARATION NAME="Q" TYPE="uint8" ISARRAY="x"><SCOPE '
    'CLASS="maybe"/><VALUE>300</VALUE></QUALIFIER.DECLARATION>',
    '<QUALIFIER NAME="Q" TYPE="boolean"><VALUE.ARRAY><VALUE>x</VALUE>'
    '</VALUE.ARRAY></QUALIFIER>',
    '<VALUE.OBJECTWITHPATH><INSTANCE CLASSNAME="X"/></VALUE.OBJECTWITHPATH>',
    '<VALUE.INSTANCEWITHPATH><INSTANCEPATH><NAMESPACEPATH><HOST>h</HOST>'
    '<LOCALNAMESPACEPATH/></NAMESPACEPATH><INSTANCENAME CLASSNAME="X"/>'
    '</INSTANCEPATH><INSTANCE CLASSNAME="X"/></VALUE.INSTANCEWITHPATH>',
    '<OBJECTPATH><CLASSPATH><NAMESPACEPATH><HOST/><LOCALNAMESPACEPATH>'
    '<NAMESPACE NAME=""/></LOCALNAMESPACEPATH></NAMESPACEPATH>'
    '<CLASSNAME NAME="X"/></CLASSPATH></OBJECTPATH>',
]


def perturb_name(r, names):
    """A near miss of a valid name: prefix/suffix/case/space variations."""
    n = r.choice(names)
    k = r.randrange(9)
    if k == 0:
        return n + r.choice(['_t', 's', '2', 'x', '[]', ' ', '\t', '.', '64'])
    if k == 1:
        return r.choice(['x', ' ', 'c', 'u', '_']) + n
    if k == 2:
        return n.upper()
    if k == 3:
        return n.capitalize()
    if k == 4:
        return n[:-1]
    if k == 5:
        return n[1:]
    if k == 6:
        return n + n
    if k == 7:
        return n.replace('int', 'Int').replace('real', 'reaI')
    return ' ' + n + ' '


def gen_fault(r, kinds=None):
    """A fault spec (plain data) of a random kind."""
    k = r.choice(kinds or ALL_KINDS + ['struct'] * 8 + ['corrupt_bytes'] * 3
                 + ['cim_error'] * 2)
    f = {'kind': k, 'seed': r.getrandbits(32)}
    if k == 'refuse':
        f['times'] = r.choice([1, 2, 3, 5])
    return f


def _split(raw):
    head, _, body = raw.partition(b'\r\n\r\n')
    return head, body


def apply(fault, raw, timeout=None):
    """raw = full plausible HTTP reply.  Returns list of stream actions."""
    k = fault['kind']
    r = random.Random(fault['seed'])
    head, body = _split(raw)
    hl = len(head) + 4
    if k == 'reset_before_status':
        return ['RESET']
    if k == 'reset_mid_headers':
        return [raw[:r.randint(1, max(1, hl - 1))], 'RESET']
    if k == 'reset_mid_body':
        return [raw[:r.randint(hl, max(hl, len(raw) - 1))], 'RESET']
    if k == 'eof_early':
        return [raw[:r.randint(0, max(0, len(raw) - 1))]]
    if k == 'eof_empty':
        return []
    if k == 'stall':
        return ['TIMEOUT']
    if k == 'stall_mid_body':
        return [raw[:r.randint(1, max(1, len(raw) - 1))], 'TIMEOUT']
    if k == 'pieces':
        out = []
        i = 0
        while i < len(raw):
            n = r.choice([1, 1, 2, 3, 7, 64, 1000])
            out.append(raw[i:i + n])
            i += n
        return out
    if k == 'delay':
        return [('DELAY', r.choice([0.1, 1.0, 5.0])), raw]
    if k == 'status':
        st = r.choice([100, 204, 301, 302, 400, 401, 401, 401, 401, 403, 404,
                       405, 407, 408, 500, 501, 503, 599, 200])
        hdrs = []
        if r.random() < 0.5:
            hdrs.append(('CIMError', r.choice(
                ['request-not-valid', 'unsupported-operation', '', 'x\u4e2d',
                 'a' * 3000])))
            if r.random() < 0.5:
                hdrs.append(('PGErrorDetail', r.choice(
                    ['some%20detail', '%', '%zz', '%E4%B8', '\xe4', ''])))
        if st == 401 and r.random() < 0.7:
            hdrs.append(('WWW-Authenticate', r.choice(
                ['Basic realm="x"', 'Digest realm="x"', 'Basic', '',
                 'Negotiate, Basic realm="y"', ',', 'Local "/tmp/x"',
                 'Basic,', ',Basic', 'Basic, ,Digest', ' ', ', ,',
                 'Negotiate,Basic', 'basic realm="x"', 'Basic  realm',
                 '\tBasic', 'Digest , , Basic "h:1"', 'OpenPegasus "x"'])))
        if st in (301, 302):
            hdrs.append(('Location', r.choice(
                ['http://FakedUrl:5988/other', '/cimom', '', 'x://',
                 'http://FakedUrl:5988/cimom'])))
        b = r.choice([b'', body, b'<html>oops</html>'])
        return [wire.http_response(b, st, r.choice(['X', 'OK', '', 'Err\xe4']),
                                   headers=hdrs)]
    if k == 'ctype':
        ct = r.choice([None, 'text/html', 'text/xml', 'application/xml',
                       'application/xml; charset=latin1', 'text/plain',
                       'application/xml;charset="utf-16"', '', 'xml',
                       'application/soap+xml', '\xe4'])
        return [wire.http_response(body, content_type=ct)]
    if k == 'clen':
        n = len(body)
        cl = r.choice([str(n + 10), str(max(0, n - 10)), '0', 'abc', '-1',
                       '', str(n) + ', ' + str(n), '1e3', None,
                       '99999999999999999999'])
        if cl is None:
            return [wire.http_response(body, content_length=None)]
        return [wire.http_response(body, content_length=cl)]
    if k == 'hdr_garbage':
        g = r.choice([b'X-Bad\r\n', b': novalue\r\n', b'X-Long: ' +
                      b'v' * 70000 + b'\r\n', b'X-\xe4\xf6: \xff\r\n',
                      b'X-Fold: a\r\n b\r\n', b'Content-Length: 5\r\n',
                      b'\x00\x01\r\n'] + [b'X-%d: v\r\n' % i * 1
                                          for i in range(1)])
        if r.random() < 0.2:
            g = b''.join(b'X-%d: v\r\n' % i for i in range(150))
        return [head + b'\r\n' + g + b'\r\n' + body]
    if k == 'statusline':
        sl = r.choice([b'HTTP/9.9 200 OK', b'HTTP/1.1 abc OK', b'200 OK',
                       b'HTTP/1.1', b'', b'\xff\xfe', b'HTTP/1.1 99999 X',
                       b'HTTP/1.1 200', b'ICY 200 OK', b'HTTP/1.1 -1 X',
                       b'HTTP/1.0 200 OK', b'HTTP/1.1  200  OK'])
        rest = head.split(b'\r\n', 1)[1] if b'\r\n' in head else b''
        return [sl + b'\r\n' + rest + b'\r\n\r\n' + body]
    if k == 'chunked':
        mode = r.choice(['ok', 'badsize', 'trunc', 'nolast', 'huge'])
        hdr = (b'HTTP/1.1 200 OK\r\nContent-Type: application/xml\r\n'
               b'Transfer-Encoding: chunked\r\nConnection: close\r\n\r\n')
        half = len(body) // 2
        if mode == 'ok':
            ch = b'%x\r\n%s\r\n%x\r\n%s\r\n0\r\n\r\n' % (
                half, body[:half], len(body) - half, body[half:])
        elif mode == 'badsize':
            ch = b'zz\r\n' + body + b'\r\n0\r\n\r\n'
        elif mode == 'trunc':
            ch = b'%x\r\n%s' % (len(body), body[:half])
        elif mode == 'nolast':
            ch = b'%x\r\n%s\r\n' % (len(body), body)
        else:
            ch = b'ffffffffffffffffffff\r\n' + body
        return [hdr + ch]
    if k == 'encoding':
        enc = r.choice(['gzip', 'deflate', 'br', 'identity', 'bogus'])
        return [wire.http_response(body, headers=[('Content-Encoding', enc)])]
    if k == 'resptime':
        v = r.choice(['abc', '', '-5', '1e400', 'nan', '12 34', '\xe4'])
        return [wire.http_response(body,
                                   headers=[('WBEMServerResponseTime', v)])]
    if k == 'replace_body':
        b = r.choice([b'', b' ', b'<', b'<?xml version="1.0"?>',
                      b'<CIM/>', b'<CIM CIMVERSION="2.0" DTDVERSION="2.0"/>',
                      b'<CIM CIMVERSION="2.0" DTDVERSION="2.0"><MESSAGE '
                      b'ID="1" PROTOCOLVERSION="1.0"/></CIM>',
                      b'<CIM CIMVERSION="2.0" DTDVERSION="2.0"><MESSAGE '
                      b'ID="1" PROTOCOLVERSION="1.0"><SIMPLERSP/></MESSAGE>'
                      b'</CIM>',
                      b'<CIM CIMVERSION="2.0" DTDVERSION="2.0"><DECLARATION/>'
                      b'</CIM>',
                      b'{"json": true}', b'\xef\xbb\xbf' + body,
                      body.decode('utf-8', 'replace').encode('utf-16'),
                      b'<?xml version="1.0" encoding="klingon"?>' +
                      body.split(b'?>', 1)[-1],
                      b'<!DOCTYPE CIM [<!ENTITY a "aaaaaaaaaa"><!ENTITY b '
                      b'"&a;&a;&a;&a;&a;&a;&a;&a;&a;&a;">]>' +
                      body.split(b'?>', 1)[-1],
                      body + body, body[:len(body) // 2] + body,
                      bytes(r.getrandbits(8) for _ in range(200))])
        return [wire.http_response(b)]
    if k == 'corrupt_bytes':
        b = bytearray(body)
        for _ in range(r.choice([1, 1, 2, 5])):
            if not b:
                break
            pos = r.randrange(len(b))
            m = r.choice(['flip', 'del', 'ins', 'rep', 'dup'])
            if m == 'flip':
                b[pos] ^= 1 << r.randrange(8)
            elif m == 'del':
                del b[pos:pos + r.choice([1, 2, 10, 100])]
            elif m == 'ins':
                b[pos:pos] = r.choice([b'\xff', b'\x00', b'\xc3', b'<', b'&',
                                       b'\xed\xa0\x80', b']]>', b'"', b'\x01',
                                       b'\xef\xbf\xbf', b'>', b'</VALUE>'])
            elif m == 'rep':
                b[pos:pos + 1] = bytes([r.getrandbits(8)])
            else:
                b[pos:pos] = b[pos:pos + r.choice([5, 50])]
        return [wire.http_response(bytes(b))]
    if k == 'cim_error':
        return [wire.http_response(_cim_error(body, r))]
    if k == 'struct':
        return [wire.http_response(_struct(body, r))]
    raise ValueError(k)


def _cim_error(body, r):
    try:
        doc = etree.fromstring(body)
    except etree.XMLSyntaxError:
        return body
    rsp = doc.find('.//IMETHODRESPONSE')
    if rsp is None:
        rsp = doc.find('.//METHODRESPONSE')
    if rsp is None:
        return body
    for ch in list(rsp):
        rsp.remove(ch)
    err = etree.SubElement(rsp, 'ERROR')
    code = r.choice([str(r.randint(0, 30)), str(r.randint(1, 28)), 'x', '',
                     '-1', '99999999999999999999', '1.5', ' 6 ', '0x6',
                     '\u0663', None])
    if code is not None:
        err.set('CODE', code)
    if r.random() < 0.6:
        err.set('DESCRIPTION', r.choice(['d', '', 'line1\nline2', '\u4e2d',
                                         'x' * 5000]))
    if r.random() < 0.25:
        inst = etree.SubElement(err, 'INSTANCE')
        if r.random() < 0.8:
            inst.set('CLASSNAME', 'CIM_Error')
        if r.random() < 0.5:
            p = etree.SubElement(inst, 'PROPERTY')
            p.set('NAME', 'CIMStatusCode')
            p.set('TYPE', r.choice(['uint32', 'uint9', 'string']))
            v = etree.SubElement(p, 'VALUE')
            v.text = r.choice(['6', 'x', 'INF'])
    if r.random() < 0.1:
        etree.SubElement(rsp, 'IRETURNVALUE')
    return etree.tostring(doc, xml_declaration=True, encoding='utf-8')


_NSP = ('<NAMESPACEPATH><HOST>h</HOST><LOCALNAMESPACEPATH><NAMESPACE '
        'NAME="root"/><NAMESPACE NAME="cimv2"/></LOCALNAMESPACEPATH>'
        '</NAMESPACEPATH>')
_LNSP = ('<LOCALNAMESPACEPATH><NAMESPACE NAME="root"/><NAMESPACE '
         'NAME="cimv2"/></LOCALNAMESPACEPATH>')
_INAME = ('<INSTANCENAME CLASSNAME="X"><KEYBINDING NAME="k"><KEYVALUE '
          'VALUETYPE="string">a</KEYVALUE></KEYBINDING></INSTANCENAME>')
_INST = ('<INSTANCE CLASSNAME="X"><PROPERTY NAME="k" TYPE="string"><VALUE>a'
         '</VALUE></PROPERTY></INSTANCE>')
_CLS = ('<CLASS NAME="X"><PROPERTY NAME="k" TYPE="string"/></CLASS>')
# valid objects of every kind a reply can carry: each is well-formed and
# DTD-valid by itself, but of another kind than the operation expects
VALID_OBJECTS = [
    _INST, _CLS, _INAME, '<CLASSNAME NAME="X"/>',
    '<INSTANCEPATH>%s%s</INSTANCEPATH>' % (_NSP, _INAME),
    '<LOCALINSTANCEPATH>%s%s</LOCALINSTANCEPATH>' % (_LNSP, _INAME),
    '<CLASSPATH>%s<CLASSNAME NAME="X"/></CLASSPATH>' % _NSP,
    '<LOCALCLASSPATH>%s<CLASSNAME NAME="X"/></LOCALCLASSPATH>' % _LNSP,
    '<OBJECTPATH><INSTANCEPATH>%s%s</INSTANCEPATH></OBJECTPATH>' % (
        _NSP, _INAME),
    '<OBJECTPATH><CLASSPATH>%s<CLASSNAME NAME="X"/></CLASSPATH>'
    '</OBJECTPATH>' % _NSP,
    '<VALUE.NAMEDINSTANCE>%s%s</VALUE.NAMEDINSTANCE>' % (_INAME, _INST),
    '<VALUE.INSTANCEWITHPATH><INSTANCEPATH>%s%s</INSTANCEPATH>%s'
    '</VALUE.INSTANCEWITHPATH>' % (_NSP, _INAME, _INST),
    '<VALUE.OBJECTWITHPATH><INSTANCEPATH>%s%s</INSTANCEPATH>%s'
    '</VALUE.OBJECTWITHPATH>' % (_NSP, _INAME, _INST),
    '<VALUE.OBJECTWITHPATH><CLASSPATH>%s<CLASSNAME NAME="X"/></CLASSPATH>%s'
    '</VALUE.OBJECTWITHPATH>' % (_NSP, _CLS),
    '<VALUE.OBJECTWITHLOCALPATH><LOCALINSTANCEPATH>%s%s</LOCALINSTANCEPATH>%s'
    '</VALUE.OBJECTWITHLOCALPATH>' % (_LNSP, _INAME, _INST),
    '<VALUE.OBJECTWITHLOCALPATH><LOCALCLASSPATH>%s<CLASSNAME NAME="X"/>'
    '</LOCALCLASSPATH>%s</VALUE.OBJECTWITHLOCALPATH>' % (_LNSP, _CLS),
    '<VALUE.NAMEDOBJECT>%s%s</VALUE.NAMEDOBJECT>' % (_INAME, _INST),
    '<VALUE.NAMEDOBJECT>%s</VALUE.NAMEDOBJECT>' % _CLS,
    '<VALUE.OBJECT>%s</VALUE.OBJECT>' % _INST,
    '<VALUE.OBJECT>%s</VALUE.OBJECT>' % _CLS,
    '<VALUE>text</VALUE>', '<VALUE.ARRAY><VALUE>a</VALUE></VALUE.ARRAY>',
    '<VALUE.REFERENCE>%s</VALUE.REFERENCE>' % _INAME,
    '<VALUE.REFERENCE><CLASSNAME NAME="X"/></VALUE.REFERENCE>',
    '<VALUE.REFARRAY><VALUE.REFERENCE>%s</VALUE.REFERENCE></VALUE.REFARRAY>'
    % _INAME,
    '<QUALIFIER.DECLARATION NAME="Q" TYPE="string"/>',
]


def _struct(body, r):
    """One (sometimes two) structure-aware mutations of the reply."""
    try:
        doc = etree.fromstring(body)
    except etree.XMLSyntaxError:
        return body
    for _ in range(r.choice([1, 1, 1, 2])):
        nodes = list(doc.iter())
        m = r.choice(['attr_set', 'attr_set', 'attr_set', 'attr_del',
                      'attr_add', 'text', 'text', 'rename', 'drop', 'dup',
                      'reorder', 'insert', 'insert', 'wrap', 'empty',
                      'deep', 'near_miss', 'near_miss', 'near_miss',
                      'unwrap', 'unwrap', 'replace', 'replace', 'replace'])
        qrc = [n for n in nodes if n.tag == 'PARAMVALUE' and
               n.get('NAME') == 'QueryResultClass']
        if qrc and r.random() < 0.3:
            # the class that describes a query result is something else
            for kch in list(qrc[0]):
                qrc[0].remove(kch)
            if r.random() < 0.85:
                qrc[0].append(etree.fromstring(r.choice(VALID_OBJECTS)))
            continue
        pv = [n for n in nodes if n.tag == 'PARAMVALUE' and
              n.get('NAME') in ('EnumerationContext', 'EndOfSequence')]
        if pv and r.random() < 0.25:
            # the output parameters of an open/pull response
            eos = [n for n in pv if n.get('NAME') == 'EndOfSequence']
            ctx = [n for n in pv if n.get('NAME') == 'EnumerationContext']
            how = r.choice(['ctx_child', 'ctx_child', 'eos_text', 'ctx_drop',
                            'eos_drop', 'ctx_type', 'swap'])
            if how == 'ctx_child' or (how == 'ctx_drop' and not ctx):
                # the context is not a string any more while the sequence
                # goes on
                for n in eos:
                    for v in n.iter('VALUE'):
                        v.text = 'FALSE'
                tgt = ctx[0] if ctx else etree.SubElement(
                    eos[0].getparent(), 'PARAMVALUE',
                    NAME='EnumerationContext')
                for kch in list(tgt):
                    tgt.remove(kch)
                tgt.append(etree.fromstring(r.choice(VALID_OBJECTS)))
            elif how == 'eos_text' and eos:
                for v in eos[0].iter('VALUE'):
                    v.text = r.choice(['FALSE', 'TRUE', 'false', 'maybe', '',
                                       '0', ' true '])
            elif how == 'ctx_drop' and ctx:
                ctx[0].getparent().remove(ctx[0])
            elif how == 'eos_drop' and eos:
                eos[0].getparent().remove(eos[0])
            elif how == 'ctx_type' and ctx:
                ctx[0].set('PARAMTYPE', r.choice(CIM_TYPES))
            elif ctx and eos:
                ctx[0].set('NAME', 'EndOfSequence')
                eos[0].set('NAME', 'EnumerationContext')
            continue
        if m == 'unwrap':
            # an element is replaced by one of its child elements (e.g.
            # VALUE.NAMEDINSTANCE by its INSTANCE)
            cands = [n for n in nodes if n.getparent() is not None and
                     len(n) > 0 and n.tag not in ('CIM', 'MESSAGE',
                                                  'SIMPLERSP')]
            if not cands:
                continue
            n = r.choice(cands)
            kid = r.choice(list(n))
            n.getparent().replace(n, kid)
            continue
        if m == 'replace':
            # a returned object is replaced by a valid object of another
            # kind (what the same operation returns for another target, or
            # what a different operation returns)
            cands = [n for n in nodes if n.getparent() is not None and
                     n.getparent().tag in ('IRETURNVALUE', 'PARAMVALUE',
                                           'RETURNVALUE')]
            if not cands:
                cands = [n for n in nodes if n.getparent() is not None and
                         n.tag not in ('MESSAGE', 'SIMPLERSP')]
            if not cands:
                continue
            n = r.choice(cands)
            new = etree.fromstring(r.choice(VALID_OBJECTS))
            if r.random() < 0.3:
                # all siblings, not only one
                par = n.getparent()
                for sib in list(par):
                    import copy as _c
                    par.replace(sib, _c.deepcopy(new))
            else:
                n.getparent().replace(n, new)
            continue
        if m == 'near_miss':
            # a converted attribute gets a value that is almost valid
            cands = [(n, a) for n in nodes for a in n.attrib
                     if a in ('TYPE', 'PARAMTYPE', 'VALUETYPE',
                              'EmbeddedObject', 'EMBEDDEDOBJECT',
                              'PROPAGATED', 'ISARRAY', 'OVERRIDABLE',
                              'TOSUBCLASS', 'ARRAYSIZE', 'CODE')]
            if not cands:
                continue
            n, a = r.choice(cands)
            cur = n.get(a)
            n.set(a, r.choice([cur + r.choice(['_t', 's', '2', ' ', 'x',
                                                '[]', '64', '\n']),
                               r.choice(['x', ' ', '_']) + cur,
                               cur.upper(), cur.capitalize(), cur[:-1],
                               cur + cur]))
            continue
        if m in ('attr_set', 'attr_del'):
            cands = [n for n in nodes if n.attrib]
            if not cands:
                continue
            n = r.choice(cands)
            # prefer the attributes the parser converts
            names = [a for a in n.attrib if a in INTERESTING_ATTRS] or \
                list(n.attrib)
            a = r.choice(names)
            if m == 'attr_del':
                del n.attrib[a]
            elif a in ('TYPE', 'PARAMTYPE') and r.random() < 0.6:
                n.set(a, perturb_name(r, CIM_TYPES))
            elif a == 'VALUETYPE' and r.random() < 0.6:
                n.set(a, perturb_name(r, ['string', 'boolean', 'numeric']))
            elif a in ('EmbeddedObject', 'EMBEDDEDOBJECT') and \
                    r.random() < 0.6:
                n.set(a, perturb_name(r, ['instance', 'object']))
            elif a in ('PROPAGATED', 'OVERRIDABLE', 'TOSUBCLASS',
                       'TOINSTANCE', 'TRANSLATABLE', 'ISARRAY') and \
                    r.random() < 0.6:
                n.set(a, perturb_name(r, ['true', 'false']))
            else:
                n.set(a, r.choice(ODD_ATTR + CIM_TYPES))
        elif m == 'attr_add':
            n = r.choice(nodes)
            n.set(r.choice(INTERESTING_ATTRS + ['BOGUS', 'lang']),
                  r.choice(ODD_ATTR + CIM_TYPES))
        elif m == 'text':
            cands = [n for n in nodes if n.tag in ('VALUE', 'KEYVALUE',
                                                   'HOST')]
            if not cands:
                continue
            r.choice(cands).text = r.choice(ODD_TEXT)
        elif m == 'rename':
            n = r.choice(nodes)
            n.tag = r.choice(ELEMS)
        elif m == 'drop':
            cands = [n for n in nodes if n.getparent() is not None]
            if not cands:
                continue
            n = r.choice(cands)
            n.getparent().remove(n)
        elif m == 'dup':
            cands = [n for n in nodes if n.getparent() is not None]
            if not cands:
                continue
            n = r.choice(cands)
            import copy
            n.addnext(copy.deepcopy(n))
        elif m == 'reorder':
            cands = [n for n in nodes if len(n) > 1]
            if not cands:
                continue
            n = r.choice(cands)
            kids = list(n)
            r.shuffle(kids)
            for kch in kids:
                n.remove(kch)
            for kch in kids:
                n.append(kch)
        elif m == 'insert':
            n = r.choice(nodes)
            try:
                sn = etree.fromstring(r.choice(SNIPPETS))
            except etree.XMLSyntaxError:
                continue
            n.insert(r.randint(0, len(n)), sn)
        elif m == 'wrap':
            cands = [n for n in nodes if n.getparent() is not None]
            if not cands:
                continue
            n = r.choice(cands)
            w = etree.Element(r.choice(ELEMS))
            n.addprevious(w)
            w.append(n)
        elif m == 'empty':
            n = r.choice(nodes)
            for kch in list(n):
                n.remove(kch)
            n.text = None
        elif m == 'deep':
            n = r.choice(nodes)
            cur = n
            for _i in range(r.choice([30, 200])):
                cur = etree.SubElement(cur, r.choice(['VALUE.ARRAY', 'X',
                                                      'INSTANCE']))
    return etree.tostring(doc, xml_declaration=True, encoding='utf-8')
