"""Batch runner shared by all checks: seeded search over many simulated runs
on all cores, violation triage against known_findings.json, minimisation,
replay files, evidence files.

Exit codes: 0 = property held on everything explored (known findings are
printed as KNOWN-FINDING lines), 1 = VIOLATION, 2 = HARNESS-ERROR.
"""
import os
import sys
import json
import time
import argparse
import importlib
import traceback
import faulthandler
import multiprocessing as mp
from collections import Counter

from . import VERIF, REPO
from .prng import derive
from .sched import HarnessTimeout

FINDINGS_FILE = os.path.join(VERIF, 'known_findings.json')
EVIDENCE_DIR = os.path.join(VERIF, 'evidence')
REPLAY_DIR = os.path.join(VERIF, 'replays')
MAX_VIOL_PER_WORKER = 12


def load_check(cid):
    return importlib.import_module('checks.' + cid.lower())


def load_findings():
    try:
        with open(FINDINGS_FILE) as f:
            return json.load(f)
    except FileNotFoundError:
        return []


def run_seed_for(seed, cid, index):
    return derive(seed, cid, index)


def _merge_counter(dst, src):
    for k, v in src.items():
        dst[k] = dst.get(k, 0) + v


def _worker(cid, seed, tier, wid, nworkers, max_runs, deadline, conn,
            run_wall):
    """Run indexes wid, wid+nworkers, ... and send one aggregate result."""
    agg = {'n': 0, 'evals': 0, 'fps': set(), 'nontrivial': 0, 'probes': {}, 'faults': {},
           'sim_s': 0.0, 'steps': 0, 'violations': [], 'harness': [],
           'policies': {}, 'samples': [], 'sigcount': {}}
    try:
        import warnings
        warnings.simplefilter('ignore')
        chk = load_check(cid)
        if hasattr(chk, 'worker_init'):
            chk.worker_init(tier)
        i = wid
        while i < max_runs and time.time() < deadline:
            rs = run_seed_for(seed, cid, i)
            faulthandler.dump_traceback_later(run_wall, exit=True)
            try:
                plan = chk.gen_plan(rs, tier, i)
                res = chk.execute(plan)
            except HarnessTimeout as e:
                agg['harness'].append('run %d seed %d: %s' % (i, rs, e))
                break
            finally:
                faulthandler.cancel_dump_traceback_later()
            agg['n'] += 1
            agg['evals'] += res.get('evaluations', 1)
            for fp in res.get('case_fingerprints', ()):
                agg['fps'].add(int(fp[:15], 16))
            if res.get('nontrivial'):
                agg['nontrivial'] += 1
                agg['fps'].add(int(res['fingerprint'][:15], 16))
            _merge_counter(agg['probes'], res.get('probes', {}))
            _merge_counter(agg['faults'], res.get('faults', {}))
            agg['sim_s'] += res.get('sim_seconds', 0.0)
            agg['steps'] += res.get('steps', 0)
            pol = res.get('policy')
            if pol:
                agg['policies'][pol] = agg['policies'].get(pol, 0) + 1
            if len(agg['samples']) < 2 and res.get('nontrivial'):
                agg['samples'].append(chk.sample(plan, res))
            for v in res.get('violations', []):
                sg = v['sig']
                agg['sigcount'][sg] = agg['sigcount'].get(sg, 0) + 1
                if agg['sigcount'][sg] <= 2 and \
                        len(agg['violations']) < MAX_VIOL_PER_WORKER:
                    agg['violations'].append(
                        {'index': i, 'run_seed': rs, 'plan': plan,
                         'sig': sg, 'msg': v.get('msg', '')})
            i += nworkers
    except BaseException:  # pylint: disable=broad-except
        agg['harness'].append('worker %d crashed:\n%s' %
                              (wid, traceback.format_exc()))
    agg['fps'] = list(agg['fps'])
    try:
        conn.send(agg)
    finally:
        conn.close()


def run_batch(cid, tier, seed, max_runs, budget_s, nworkers, run_wall=120):
    ctx = mp.get_context('fork')
    deadline = time.time() + budget_s
    procs = []
    for wid in range(nworkers):
        pc, cc = ctx.Pipe(duplex=False)
        p = ctx.Process(target=_worker, args=(
            cid, seed, tier, wid, nworkers, max_runs, deadline, cc, run_wall))
        p.daemon = True
        p.start()
        cc.close()
        procs.append((p, pc))
    total = {'n': 0, 'evals': 0, 'fps': set(), 'nontrivial': 0, 'probes': {},
             'faults': {}, 'sim_s': 0.0, 'steps': 0, 'violations': [],
             'harness': [], 'policies': {}, 'samples': [], 'sigcount': {}}
    grace = budget_s + run_wall + 60
    t_end = time.time() + grace
    for wid, (p, pc) in enumerate(procs):
        remaining = max(1.0, t_end - time.time())
        agg = None
        try:
            if pc.poll(remaining):
                agg = pc.recv()
        except (EOFError, OSError):
            agg = None
        if agg is None:
            total['harness'].append(
                'worker %d returned no result (exit code %s)' %
                (wid, p.exitcode))
            if p.is_alive():
                p.kill()
            continue
        total['n'] += agg['n']
        total['evals'] += agg.get('evals', agg['n'])
        total['fps'].update(agg['fps'])
        total['nontrivial'] += agg['nontrivial']
        _merge_counter(total['probes'], agg['probes'])
        _merge_counter(total['faults'], agg['faults'])
        _merge_counter(total['policies'], agg['policies'])
        _merge_counter(total['sigcount'], agg['sigcount'])
        total['sim_s'] += agg['sim_s']
        total['steps'] += agg['steps']
        total['violations'].extend(agg['violations'])
        total['harness'].extend(agg['harness'])
        total['samples'].extend(agg['samples'])
    for p, pc in procs:
        p.join(5)
        if p.is_alive():
            p.kill()
    return total


# ---------------------------------------------------------------- shrinking
def has_sig(chk, plan, sig):
    try:
        res = chk.execute(plan)
    except HarnessTimeout:
        raise
    except Exception:  # pylint: disable=broad-except
        return False
    return any(v['sig'] == sig for v in res.get('violations', []))


def minimise(chk, plan, sig, budget_s=60.0):
    """Greedy delta debugging over the candidates the check proposes."""
    if not hasattr(chk, 'shrink_candidates'):
        return plan, 0
    t_end = time.time() + budget_s
    accepted = 0
    progress = True
    while progress and time.time() < t_end:
        progress = False
        for cand in chk.shrink_candidates(plan):
            if time.time() > t_end:
                break
            if has_sig(chk, cand, sig):
                plan = cand
                accepted += 1
                progress = True
                break
    return plan, accepted


def write_replay(cid, v, plan, minimised_steps):
    os.makedirs(REPLAY_DIR, exist_ok=True)
    path = os.path.join(REPLAY_DIR, '%s-%d.json' % (cid, v['run_seed']))
    n = 1
    while os.path.exists(path):
        n += 1
        path = os.path.join(REPLAY_DIR, '%s-%d-%d.json' %
                            (cid, v['run_seed'], n))
    doc = {'property': cid, 'signature': v['sig'], 'message': v['msg'],
           'run_seed': v['run_seed'], 'index': v['index'],
           'minimise_steps_accepted': minimised_steps,
           'plan': plan}
    with open(path, 'w') as f:
        json.dump(doc, f, indent=1, sort_keys=True)
    return path


def replay(cid, path):
    chk = load_check(cid)
    if hasattr(chk, 'worker_init'):
        chk.worker_init('quick')
    with open(path) as f:
        doc = json.load(f)
    faulthandler.dump_traceback_later(300, exit=True)
    res = chk.execute(doc['plan'])
    faulthandler.cancel_dump_traceback_later()
    sigs = [v['sig'] for v in res.get('violations', [])]
    want = doc.get('signature')
    # open known findings are not violations (unless the replay file is
    # about one of them)
    try:
        with open(FINDINGS_FILE) as f:
            known = {x['signature'] for x in json.load(f)
                     if x.get('status') == 'open'}
    except OSError:
        known = set()
    for sg in sigs:
        if sg in known and sg != want:
            print('KNOWN-FINDING: property=%s %s' % (cid, sg))
    sigs = [sg for sg in sigs if sg not in known or sg == want]
    print('REPLAY property=%s file=%s expected=%s got=%s' %
          (cid, path, want, sigs))
    if want in sigs:
        for v in res['violations']:
            if v['sig'] == want:
                print('  ' + v.get('msg', '')[:2000])
        print('VIOLATION property=%s replay=%s' % (cid, path))
        return 1
    if sigs:
        print('REPLAY-DIVERGED: other violation(s) %s' % sigs)
        print('VIOLATION property=%s replay=%s' % (cid, path))
        return 1
    print('REPLAY: violation not reproduced on this tree')
    return 0


# ------------------------------------------------------------------ driver
def write_evidence(cid, chk, tier, seed, total, wall, nviol, known_hit,
                   budget_s, nworkers):
    os.makedirs(EVIDENCE_DIR, exist_ok=True)
    n = total['n']
    cov = {
        'evaluations': total.get('evals', n) or n,
        'runs': n,
        'distinct_nontrivial': len(total['fps']),
        'rule': chk.RULE,
        'samples': total['samples'][:4],
        'nontrivial_runs': total['nontrivial'],
        'runs_per_hour': int(n / wall * 3600) if wall > 0 else 0,
        'seeds': {'VERIF_SEED': seed,
                  'run_seed': 'H(VERIF_SEED, "%s", index), index in [0,%d)'
                  % (cid, n)},
        'simulated_seconds': round(total['sim_s'], 3),
        'scheduler_steps': total['steps'],
        'fault_counts': dict(sorted(total['faults'].items())),
        'probes': dict(sorted(total['probes'].items())),
        'scheduler_policies': total['policies'],
        'components': chk.COMPONENTS,
        'known_findings_hit': known_hit,
        'violation_signature_counts': dict(sorted(total['sigcount'].items())),
        'harness_errors': total['harness'][:5],
        'workers': nworkers,
        'budget_s': budget_s,
        'repo': REPO,
    }
    doc = {'property_id': cid, 'tier': tier, 'seed': seed,
           'level': chk.LEVEL, 'coverage': cov,
           'assumptions': chk.ASSUMPTIONS, 'wall_s': round(wall, 2),
           'violations': nviol}
    path = os.path.join(EVIDENCE_DIR, cid + '.json')
    tmp = path + '.tmp'
    with open(tmp, 'w') as f:
        json.dump(doc, f, indent=1, sort_keys=True, default=str)
    os.replace(tmp, path)
    return path


def setup():
    """MANIFEST.setup_cmd: nothing needs building; verify that the tree under
    test and the third-party packages the checks use can be imported."""
    import pywbem
    import pywbem_mock
    import lxml.etree
    import requests
    import urllib3
    print('setup ok: pywbem %s from %s; pywbem_mock from %s; lxml %s; '
          'requests %s; urllib3 %s' % (
              pywbem.__version__, os.path.dirname(pywbem.__file__),
              os.path.dirname(pywbem_mock.__file__), lxml.etree.__version__,
              requests.__version__, urllib3.__version__))
    return 0


def main(argv=None):
    if (argv if argv is not None else sys.argv[1:])[:1] == ['--setup']:
        return setup()
    ap = argparse.ArgumentParser(prog='check')
    ap.add_argument('cid')
    ap.add_argument('--tier', default=os.environ.get('VERIF_TIER', 'quick'),
                    choices=['quick', 'thorough'])
    ap.add_argument('--seed', type=int,
                    default=int(os.environ.get('VERIF_SEED', '0') or 0))
    ap.add_argument('--replay')
    ap.add_argument('--runs', type=int)
    ap.add_argument('--budget', type=float)
    ap.add_argument('--workers', type=int)
    ap.add_argument('--no-shrink', action='store_true')
    args = ap.parse_args(argv)
    cid = args.cid.upper()

    if os.environ.get('PYTHONHASHSEED') != '0':
        env = dict(os.environ, PYTHONHASHSEED='0')
        os.execve(sys.executable,
                  [sys.executable, '-m', 'simkit'] +
                  (argv if argv is not None else sys.argv[1:]), env)

    if args.replay:
        return replay(cid, args.replay)

    chk = load_check(cid)
    tcfg = chk.TIERS[args.tier]
    budget = args.budget or float(
        os.environ.get('VERIF_BUDGET_S') or tcfg['budget_s'])
    max_runs = args.runs or tcfg.get('runs') or 10 ** 9
    nworkers = args.workers or int(
        os.environ.get('VERIF_WORKERS') or min(16, os.cpu_count() or 1))
    print('check %s tier=%s VERIF_SEED=%d runs<=%d budget=%ss workers=%d '
          'repo=%s' % (cid, args.tier, args.seed, max_runs, budget, nworkers,
                       REPO))
    sys.stdout.flush()
    t0 = time.time()
    total = run_batch(cid, args.tier, args.seed, max_runs, budget, nworkers,
                      run_wall=getattr(chk, 'RUN_WALL', 120))
    findings = load_findings()
    open_sigs = {f['signature']: f for f in findings
                 if f.get('property') == cid and f.get('status') == 'open'}
    by_sig = {}
    for v in total['violations']:
        by_sig.setdefault(v['sig'], []).append(v)
    known_hit = []
    new = []
    for sg in sorted(by_sig):
        if sg in open_sigs:
            known_hit.append(sg)
        else:
            new.append(sg)
    for sg in sorted(total['sigcount']):
        if sg in open_sigs and sg not in known_hit:
            known_hit.append(sg)
    rc = 0
    for sg in sorted(open_sigs):
        n = total['sigcount'].get(sg, 0)
        print('KNOWN-FINDING: property=%s %s -- %s (%s)' %
              (cid, sg, open_sigs[sg].get('description', ''),
               'seen in %d runs' % n if n else
               'listed, not reproduced by this run'))
    nviol = 0
    for sg in new:
        vs = sorted(by_sig[sg], key=lambda v: len(json.dumps(v['plan'])))
        v = vs[0]
        plan = v['plan']
        steps = 0
        if not args.no_shrink:
            try:
                plan, steps = minimise(chk, plan, sg,
                                       getattr(chk, 'SHRINK_BUDGET_S', 45))
            except HarnessTimeout as e:
                total['harness'].append('during minimise: %s' % e)
        path = write_replay(cid, v, plan, steps)
        nviol += 1
        rc = 1
        print('  signature: %s (in %d runs); first: run index %d seed %d' %
              (sg, total['sigcount'].get(sg, 0), v['index'], v['run_seed']))
        print('  ' + v['msg'][:1500].replace('\n', '\n  '))
        print('VIOLATION property=%s replay=%s' % (cid, path))
    wall = time.time() - t0
    ev = write_evidence(cid, chk, args.tier, args.seed, total, wall, nviol,
                        known_hit, budget, nworkers)
    print('%s: %d runs, %d non-trivial, %d distinct fingerprints, %.1fs, '
          '%d runs/h, evidence %s' %
          (cid, total['n'], total['nontrivial'], len(total['fps']), wall,
           int(total['n'] / wall * 3600) if wall else 0, ev))
    if total['harness']:
        for h in total['harness'][:5]:
            print('HARNESS-ERROR: ' + h[:3000])
        if rc == 0:
            rc = 2
    if total['n'] == 0 and rc == 0:
        print('HARNESS-ERROR: no run executed')
        rc = 2
    return rc


if __name__ == '__main__':
    sys.exit(main())
